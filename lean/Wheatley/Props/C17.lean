/-
C17 — tower size vs stage: refuse when too small, add covers when larger.
-/
import Wheatley.Props.C06
import Wheatley.Lemmas.StartRow
import Wheatley.Model.Rhythm
namespace Wheatley.C17
open Wheatley.C06

/-- What Look To checks: the opening row has exactly the tower's length, and the generator that
will be rung (the queued one if there is one) has a stage between 1 and the tower size. -/
def Gate (b : Bot) : Prop :=
  b.openingRow.length = b.n ∧ (b.nextGen.getD b.gen).stage ≠ 0 ∧ (b.nextGen.getD b.gen).stage ≤ b.n

instance (b : Bot) : Decidable (Gate b) := by unfold Gate; infer_instance

theorem gate_iff (b : Bot) :
    (b.checkStartingRow && b.checkNumberOfBells (b.nextGen.getD b.gen)) = true ↔ Gate b := by
  unfold Gate Bot.checkStartingRow Bot.checkNumberOfBells
  simp only [Bool.and_eq_true, beq_iff_eq, bne_iff_ne, Bool.not_eq_true', decide_eq_false_iff_not, Nat.not_lt]

/-- **Refuse when too small**: if the gate fails, Look To changes nothing and emits nothing. -/
theorem look_to_refused (b : Bot) (h : ¬ Gate b) : b.onLookTo = (b, []) := by
  unfold Bot.onLookTo
  have : (b.checkStartingRow && b.checkNumberOfBells (b.nextGen.getD b.gen)) = false := by
    cases hc : (b.checkStartingRow && b.checkNumberOfBells (b.nextGen.getD b.gen))
    · rfl
    · exact absurd ((gate_iff b).mp hc) h
  simp [this]

/-- **Ring when it fits**: if the gate holds (and the tower is not empty) Look To starts ringing, the
rhythm is initialised with the *current* tower size, the queued generator becomes current, and the
first row rung is the opening row. -/
theorem look_to_accepted (b : Bot) (h : Gate b) (hn : 0 < b.n) :
    b.onLookTo = b.lookTo ∧ (b.lookTo).1.isRinging = true ∧ (b.lookTo).1.gen = b.nextGen.getD b.gen ∧
    (b.lookTo).1.nextGen = none ∧ (b.lookTo).1.row = b.openingRow ∧
    ∃ ut nu rest, (b.lookTo).2 = Out.rReturn :: Out.rInit b.n ut nu :: rest := by
  have hg : (b.checkStartingRow && b.checkNumberOfBells (b.nextGen.getD b.gen)) = true := (gate_iff b).mpr h
  have hopen : b.openingRow ≠ [] := by
    intro e; have := h.1; rw [e] at this; simp at this; omega
  obtain ⟨treble, rest, hr⟩ := List.exists_cons_of_ne_nil hopen
  refine ⟨by simp [Bot.onLookTo, hg], ?_⟩
  unfold Bot.lookTo
  simp only [hr]
  -- the Bot handed to `start_next_row(True)`
  generalize hd : b.armLookTo = d
  have dR : d.isRinging = true := by subst hd; rfl
  have dO : d.ringingOpening = true := by subst hd; rfl
  have dS : d.shouldStand = false := by subst hd; rfl
  have dG : d.gen = b.nextGen.getD b.gen := by subst hd; rfl
  have dN : d.nextGen = none := by subst hd; rfl
  have dOp : d.openingRow = b.openingRow := by subst hd; rfl
  have dRL : d.roundsLeft ≠ some 0 := by
    subst hd
    simp only [Bot.armLookTo, Generated.upDownInHand, Generated.upDownInBack]
    cases b.upDownIn <;> simp
    split <;> simp
  have hstart : startsNow d.ctl = false := by
    simp only [startsNow, Bot.ctl]
    cases hq : d.roundsLeft with
    | none => rfl
    | some k => cases k with
      | zero => exact absurd hq dRL
      | succ k => rfl
  have hstep : ctlStep d.ctl (d.ctlIn true) = .ok (ctlNext d.ctl (d.ctlIn true)) false := by
    simp [ctlStep, assertFails, hstart]
  have hring : (ctlNext d.ctl (d.ctlIn true)).isRinging = true := by
    simp [ctlNext, Bot.ctl, dR, dO, dS]
  have hopn : (ctlNext d.ctl (d.ctlIn true)).ringingOpening = true := by
    simp only [ctlNext, hstart]
    simpa [Bot.ctl] using dO
  -- unfold the first boundary
  have hsnr : d.startNextRow true =
      Bot.snrFinish (d.snrPrep.withCtl (ctlNext d.ctl (d.ctlIn true))) [] := by
    unfold Bot.startNextRow
    rw [hstep]
    simp
  have hprepG : d.snrPrep.gen = d.gen ∧ d.snrPrep.nextGen = d.nextGen ∧ d.snrPrep.openingRow = d.openingRow := by
    unfold Bot.snrPrep; split <;> exact ⟨rfl, rfl, rfl⟩
  generalize hx : d.snrPrep.withCtl (ctlNext d.ctl (d.ctlIn true)) = x at hsnr
  have xR : x.isRinging = true := by subst hx; exact hring
  have xO : x.ringingOpening = true := by subst hx; exact hopn
  have xG : x.gen = d.gen := by subst hx; exact hprepG.1
  have xN : x.nextGen = d.nextGen := by subst hx; exact hprepG.2.1
  have xOp : x.openingRow = d.openingRow := by subst hx; exact hprepG.2.2
  have hgen : x.generateNextRow = ({ x with row := x.openingRow }, []) := by
    simp [Bot.generateNextRow, xO]
  have hfin : (Bot.snrFinish x []).1 = { x with row := x.openingRow } := by
    simp [Bot.snrFinish, xR, hgen]
  rw [hsnr]
  rcases hq : Bot.snrFinish x [] with ⟨y, oy⟩
  rw [hq] at hfin
  simp only [] at hfin ⊢
  subst hfin
  refine ⟨xR, ?_, ?_, ?_, ⟨_, _, _, rfl⟩⟩
  · show x.gen = _; rw [xG, dG]
  · show x.nextGen = _; rw [xN, dN]
  · show x.openingRow = _; rw [xOp, dOp, hr]

/-- **Covers in order**: a generated row shorter than the opening row is completed with the opening
row's tail (the surplus bells in order, or the custom start row's own tail). -/
theorem covers_in_order (b : Bot) (g' : Gen) (r : Row) (calls : List String)
    (h1 : b.ringingOpening = false) (h2 : b.ringingRounds = false) (hn : b.gen.next b.hand = .ok g' r calls) :
    (b.generateNextRow).1.row = (if r.length < b.openingRow.length then r ++ b.openingRow.drop r.length else r) := by
  simp [Bot.generateNextRow, h1, h2, hn]

/-- … so the padded row has the opening row's length and its last places are the opening row's. -/
theorem padded_row (r opening : Row) (h : r.length < opening.length) :
    (r ++ opening.drop r.length).length = opening.length ∧
    (r ++ opening.drop r.length).drop r.length = opening.drop r.length := by
  constructor
  · simp; omega
  · simp

/-- **Re-evaluated at every size change**: the opening row and rounds are recomputed from the new
size, and a queued generator survives iff it still fits. -/
theorem size_change_recomputes (b : Bot) (op : Row) (h : startingRow b.n b.gen.customStart = some op) :
    (b.onSizeChange).1.openingRow = op ∧ (b.onSizeChange).1.rounds = rounds b.n ∧
    (b.onSizeChange).1.nextGen =
      (match b.nextGen with
       | some g => if g.stage ≠ 0 ∧ g.stage ≤ b.n then some g else none
       | none => none) ∧
    (b.onSizeChange).1.gen = b.gen ∧ (b.onSizeChange).2 = [] := by
  unfold Bot.onSizeChange
  simp only [h]
  refine ⟨trivial, trivial, ?_, trivial, trivial⟩
  cases hq : b.nextGen with
  | none => simp
  | some g =>
    simp only [Bot.checkNumberOfBells, Bot.n]
    by_cases hs : g.stage ≠ 0 ∧ g.stage ≤ b.tower.size
    · simp only [hs, and_self, if_true]
      have h2 : decide (b.tower.size < g.stage) = false := by simp; omega
      simp [hs.1]; exact h2
    · simp only [hs, if_false]
      by_cases h0 : g.stage = 0
      · simp [h0]
      · have h2 : decide (b.tower.size < g.stage) = true := by
          simp; have := hs; simp [h0] at this; omega
        simp [h0]; exact h2

/-- A real size change (`s_size_change` to a different size) sets every bell at hand, drops the
assignments of removed bells, and then recomputes as above with the new size. -/
theorem size_message (b : Bot) (n : Nat) (h : n ≠ b.n) :
    b.onMsg (.sizeChange n) =
      { b with tower := { b.tower with assigned := b.tower.assigned.filter (fun p => p.1 ≤ n),
                                        bellState := List.replicate n true } }.onSizeChange := by
  have h' : n ≠ b.tower.size := h
  simp [Bot.onMsg, Tower.apply, h, h']

/-- With the default start row the recomputed opening row is rounds on the new size. -/
theorem default_opening (n : Nat) : startingRow n none = some (rounds n) := rfl

/-! Non-vacuity: a 6-bell method in an 8-bell tower passes the gate, in a 5-bell tower it does not. -/
example :
    let g := (mkPlainHunt 6 none).get (by decide)
    let b8 : Bot := { Bot.init g false false true none none with
                      tower := { Tower.empty with bellState := List.replicate 8 true }, openingRow := rounds 8 }
    let b5 : Bot := { b8 with tower := { Tower.empty with bellState := List.replicate 5 true }, openingRow := rounds 5 }
    Gate b8 ∧ ¬ Gate b5 := by decide

section RhythmSize
variable {K : Type} [Num K]


/-- **The rhythm follows the tower size**: Look To re-initialises the line with the size it is given -
stage and blow interval are those of the new tower, whoever leads and whatever was rung before. -/
theorem rhythm_follows_tower_size (r : Reg K) (stage : Nat) :
    (r.resetForTouch stage).stage = stage ∧
    (r.resetForTouch stage).interval = Generated.pealSpeedToBlowInterval r.pealSpeed stage ∧
    ∀ (reg : List (K × K × K) → K × K) (t : K), (r.initialiseLine reg stage true t).stage = stage ∧
      (r.initialiseLine reg stage true t).interval = Generated.pealSpeedToBlowInterval r.pealSpeed stage := by
  refine ⟨rfl, rfl, fun reg t => ?_⟩
  simp [Reg.initialiseLine, Reg.resetForTouch]

end RhythmSize

end Wheatley.C17
