/-
C17 — tower size vs stage: refuse when too small, add covers when larger.
-/
import Wheatley.Props.C06
import Wheatley.Props.C07
import Wheatley.Lemmas.StartRow
import Wheatley.Model.Rhythm
namespace Wheatley.C17
open Wheatley.C06

/-- What Look To checks: the opening row has exactly the tower's length, and the generator that
will be rung (the queued one if there is one) has a stage between 1 and the tower size. -/
def Gate (b : Bot) : Prop :=
  b.openingRow.length = b.n ∧ (b.nextGen.getD b.gen).stage ≠ 0 ∧ (b.nextGen.getD b.gen).stage ≤ b.n

instance (b : Bot) : Decidable (Gate b) := by unfold Gate; infer_instance

theorem gate_iff (b : Bot) :
    (b.checkStartingRow && b.checkNumberOfBells (b.nextGen.getD b.gen)) = true ↔ Gate b := by
  unfold Gate Bot.checkStartingRow Bot.checkNumberOfBells
  simp only [Bool.and_eq_true, beq_iff_eq, bne_iff_ne, Bool.not_eq_true', decide_eq_false_iff_not, Nat.not_lt]

/-- **Refuse when too small**: if the gate fails, Look To changes nothing and emits nothing. -/
theorem look_to_refused (b : Bot) (h : ¬ Gate b) : b.onLookTo = (b, []) := by
  unfold Bot.onLookTo
  have : (b.checkStartingRow && b.checkNumberOfBells (b.nextGen.getD b.gen)) = false := by
    cases hc : (b.checkStartingRow && b.checkNumberOfBells (b.nextGen.getD b.gen))
    · rfl
    · exact absurd ((gate_iff b).mp hc) h
  simp [this]

/-- **Ring when it fits**: if the gate holds (and the tower is not empty) Look To starts ringing, the
rhythm is initialised with the *current* tower size, the queued generator becomes current, and the
first row rung is the opening row. -/
theorem look_to_accepted (b : Bot) (h : Gate b) (hn : 0 < b.n) :
    b.onLookTo = b.lookTo ∧ (b.lookTo).1.isRinging = true ∧ (b.lookTo).1.gen = b.nextGen.getD b.gen ∧
    (b.lookTo).1.nextGen = none ∧ (b.lookTo).1.row = b.openingRow ∧
    ∃ ut nu rest, (b.lookTo).2 = Out.rReturn :: Out.rInit b.n ut nu :: rest := by
  have hg : (b.checkStartingRow && b.checkNumberOfBells (b.nextGen.getD b.gen)) = true := (gate_iff b).mpr h
  have hopen : b.openingRow ≠ [] := by
    intro e; have := h.1; rw [e] at this; simp at this; omega
  obtain ⟨treble, rest, hr⟩ := List.exists_cons_of_ne_nil hopen
  refine ⟨by simp [Bot.onLookTo, hg], ?_⟩
  unfold Bot.lookTo
  simp only [hr]
  -- the Bot handed to `start_next_row(True)`
  generalize hd : b.armLookTo = d
  have dR : d.isRinging = true := by subst hd; rfl
  have dO : d.ringingOpening = true := by subst hd; rfl
  have dS : d.shouldStand = false := by subst hd; rfl
  have dG : d.gen = b.nextGen.getD b.gen := by subst hd; rfl
  have dN : d.nextGen = none := by subst hd; rfl
  have dOp : d.openingRow = b.openingRow := by subst hd; rfl
  have dRL : d.roundsLeft ≠ some 0 := by
    subst hd
    simp only [Bot.armLookTo, Generated.upDownInHand, Generated.upDownInBack]
    cases b.upDownIn <;> simp
    split <;> simp
  have hstart : startsNow d.ctl = false := by
    simp only [startsNow, Bot.ctl]
    cases hq : d.roundsLeft with
    | none => rfl
    | some k => cases k with
      | zero => exact absurd hq dRL
      | succ k => rfl
  have hstep : ctlStep d.ctl (d.ctlIn true) = .ok (ctlNext d.ctl (d.ctlIn true)) false := by
    simp [ctlStep, assertFails, hstart]
  have hring : (ctlNext d.ctl (d.ctlIn true)).isRinging = true := by
    simp [ctlNext, Bot.ctl, dR, dO, dS]
  have hopn : (ctlNext d.ctl (d.ctlIn true)).ringingOpening = true := by
    simp only [ctlNext, hstart]
    simpa [Bot.ctl] using dO
  -- unfold the first boundary
  have hsnr : d.startNextRow true =
      Bot.snrFinish (d.snrPrep.withCtl (ctlNext d.ctl (d.ctlIn true))) [] := by
    unfold Bot.startNextRow
    rw [hstep]
    simp
  have hprepG : d.snrPrep.gen = d.gen ∧ d.snrPrep.nextGen = d.nextGen ∧ d.snrPrep.openingRow = d.openingRow := by
    unfold Bot.snrPrep; split <;> exact ⟨rfl, rfl, rfl⟩
  generalize hx : d.snrPrep.withCtl (ctlNext d.ctl (d.ctlIn true)) = x at hsnr
  have xR : x.isRinging = true := by subst hx; exact hring
  have xO : x.ringingOpening = true := by subst hx; exact hopn
  have xG : x.gen = d.gen := by subst hx; exact hprepG.1
  have xN : x.nextGen = d.nextGen := by subst hx; exact hprepG.2.1
  have xOp : x.openingRow = d.openingRow := by subst hx; exact hprepG.2.2
  have hgen : x.generateNextRow = ({ x with row := x.openingRow }, []) := by
    simp [Bot.generateNextRow, xO]
  have hfin : (Bot.snrFinish x []).1 = { x with row := x.openingRow } := by
    simp [Bot.snrFinish, xR, hgen]
  rw [hsnr]
  rcases hq : Bot.snrFinish x [] with ⟨y, oy⟩
  rw [hq] at hfin
  simp only [] at hfin ⊢
  subst hfin
  refine ⟨xR, ?_, ?_, ?_, ⟨_, _, _, rfl⟩⟩
  · show x.gen = _; rw [xG, dG]
  · show x.nextGen = _; rw [xN, dN]
  · show x.openingRow = _; rw [xOp, dOp, hr]

/-- **Covers in order**: a generated row shorter than the opening row is completed with the opening
row's tail (the surplus bells in order, or the custom start row's own tail). -/
theorem covers_in_order (b : Bot) (g' : Gen) (r : Row) (calls : List String)
    (h1 : b.ringingOpening = false) (h2 : b.ringingRounds = false) (hn : b.gen.next b.hand = .ok g' r calls) :
    (b.generateNextRow).1.row = (if r.length < b.openingRow.length then r ++ b.openingRow.drop r.length else r) := by
  simp [Bot.generateNextRow, h1, h2, hn]

/-- … so the padded row has the opening row's length and its last places are the opening row's. -/
theorem padded_row (r opening : Row) (h : r.length < opening.length) :
    (r ++ opening.drop r.length).length = opening.length ∧
    (r ++ opening.drop r.length).drop r.length = opening.drop r.length := by
  constructor
  · simp; omega
  · simp

/-- **Re-evaluated at every size change**: the opening row and rounds are recomputed from the new
size, and a queued generator survives iff it still fits. -/
theorem size_change_recomputes (b : Bot) (op : Row) (h : startingRow b.n b.gen.customStart = some op) :
    (b.onSizeChange).1.openingRow = op ∧ (b.onSizeChange).1.rounds = rounds b.n ∧
    (b.onSizeChange).1.nextGen =
      (match b.nextGen with
       | some g => if g.stage ≠ 0 ∧ g.stage ≤ b.n then some g else none
       | none => none) ∧
    (b.onSizeChange).1.gen = b.gen ∧ (b.onSizeChange).2 = [] := by
  unfold Bot.onSizeChange
  simp only [h]
  refine ⟨trivial, trivial, ?_, trivial, trivial⟩
  cases hq : b.nextGen with
  | none => simp
  | some g =>
    simp only [Bot.checkNumberOfBells, Bot.n]
    by_cases hs : g.stage ≠ 0 ∧ g.stage ≤ b.tower.size
    · simp only [hs, and_self, if_true]
      have h2 : decide (b.tower.size < g.stage) = false := by simp; omega
      simp [hs.1]; exact h2
    · simp only [hs, if_false]
      by_cases h0 : g.stage = 0
      · simp [h0]
      · have h2 : decide (b.tower.size < g.stage) = true := by
          simp; have := hs; simp [h0] at this; omega
        simp [h0]; exact h2

/-- A real size change (`s_size_change` to a different size) sets every bell at hand, drops the
assignments of removed bells, and then recomputes as above with the new size. -/
theorem size_message (b : Bot) (n : Nat) (h : n ≠ b.n) :
    b.onMsg (.sizeChange n) =
      { b with tower := { b.tower with assigned := b.tower.assigned.filter (fun p => p.1 ≤ n),
                                        bellState := List.replicate n true } }.onSizeChange := by
  have h' : n ≠ b.tower.size := h
  simp [Bot.onMsg, Tower.apply, h, h']

/-- With the default start row the recomputed opening row is rounds on the new size. -/
theorem default_opening (n : Nat) : startingRow n none = some (rounds n) := rfl

/-! Non-vacuity: a 6-bell method in an 8-bell tower passes the gate, in a 5-bell tower it does not. -/
example :
    let g := (mkPlainHunt 6 none).get (by decide)
    let b8 : Bot := { Bot.init g false false true none none with
                      tower := { Tower.empty with bellState := List.replicate 8 true }, openingRow := rounds 8 }
    let b5 : Bot := { b8 with tower := { Tower.empty with bellState := List.replicate 5 true }, openingRow := rounds 5 }
    Gate b8 ∧ ¬ Gate b5 := by decide

section RhythmSize
variable {K : Type} [Num K]


/-- **The rhythm follows the tower size**: Look To re-initialises the line with the size it is given -
stage and blow interval are those of the new tower, whoever leads and whatever was rung before. -/
theorem rhythm_follows_tower_size (r : Reg K) (stage : Nat) :
    (r.resetForTouch stage).stage = stage ∧
    (r.resetForTouch stage).interval = Generated.pealSpeedToBlowInterval r.pealSpeed stage ∧
    ∀ (reg : List (K × K × K) → K × K) (t : K), (r.initialiseLine reg stage true t).stage = stage ∧
      (r.initialiseLine reg stage true t).interval = Generated.pealSpeedToBlowInterval r.pealSpeed stage := by
  refine ⟨rfl, rfl, fun reg t => ?_⟩
  simp [Reg.initialiseLine, Reg.resetForTouch]

end RhythmSize

/-! ### A refused Look To rings nothing - however often it is called, for the whole run -/

section Refused
variable {K : Type} [Num K]

/-- The gate of `_on_look_to`, as the code computes it. -/
def gateB (b : Bot) : Bool := b.checkStartingRow && b.checkNumberOfBells (b.nextGen.getD b.gen)

/-- Events that leave the tower's size and the queue alone: everything but global states, size changes and
selections; strikes carry a state of the tower's size `N`.  Look To, Go and every other call are allowed. -/
def KeepsTower (N : Nat) : Ev → Prop
  | .msg (.bellRung st _) => st.length = N
  | .msg (.globalState _) => False
  | .msg (.sizeChange _) => False
  | .msg (.rowGen _) => False
  | _ => True

/-- What the gate reads. -/
def gateKey (b : Bot) : Nat × Nat × Nat := (b.openingRow.length, b.n, (b.nextGen.getD b.gen).stage)

theorem gateB_of_key (b b' : Bot) (h : gateKey b' = gateKey b) : gateB b' = gateB b := by
  unfold gateKey at h
  simp only [Prod.mk.injEq] at h
  unfold gateB Bot.checkStartingRow Bot.checkNumberOfBells
  rw [h.1, h.2.1, h.2.2]

theorem foldSettings_key : ∀ (kvs : List (String × SVal)) (b : Bot),
    gateKey (foldSettings b kvs).1 = gateKey b ∧ (foldSettings b kvs).1.isRinging = b.isRinging := by
  intro kvs
  induction kvs with
  | nil => intro b; exact ⟨rfl, rfl⟩
  | cons kv rest ih =>
    intro b
    obtain ⟨k, v⟩ := kv
    simp only [foldSettings]
    obtain ⟨h1, h2⟩ := ih (b.onSetting k v).1
    have hs : gateKey (b.onSetting k v).1 = gateKey b ∧ (b.onSetting k v).1.isRinging = b.isRinging := by
      simp only [Bot.onSetting]
      repeat' split
      all_goals exact ⟨rfl, rfl⟩
    exact ⟨h1.trans hs.1, h2.trans hs.2⟩

/-- While the gate is shut, a handler of such a message leaves it shut and Wheatley silent - also the handler of
Look To itself. -/
theorem onMsg_refusing (b : Bot) (m : Msg) (N : Nat) (hk : KeepsTower N (.msg m)) (hr : b.isRinging = false)
    (hn : b.n = N) (hg : gateB b = false) :
    (b.onMsg m).1.isRinging = false ∧ (b.onMsg m).1.n = N ∧ gateB (b.onMsg m).1 = false := by
  have fromKey : ∀ b' : Bot, gateKey b' = gateKey b → b'.isRinging = false →
      b'.isRinging = false ∧ b'.n = N ∧ gateB b' = false := by
    intro b' hkey hri
    refine ⟨hri, ?_, (gateB_of_key b b' hkey).trans hg⟩
    have := congrArg (fun t => t.2.1) hkey
    simp only [gateKey] at this
    rw [this]; exact hn
  unfold Bot.onMsg
  simp only []
  cases m with
  | bellRung st who =>
    have hst : st.length = N := hk
    have hkey : gateKey ({ b with tower := b.tower.apply (.bellRung st who) } : Bot) = gateKey b := by
      simp only [gateKey, Bot.n, Tower.size, Tower.apply]
      rw [hst]
      have : b.tower.bellState.length = N := hn
      rw [this]
    simp only []
    split
    · exact fromKey _ hkey hr
    · split <;> exact fromKey _ hkey hr
  | globalState st => exact absurd hk (by simp [KeepsTower])
  | sizeChange n => exact absurd hk (by simp [KeepsTower])
  | rowGen g => exact absurd hk (by simp [KeepsTower])
  | call c =>
    have hq : gateKey ({ b with tower := b.tower.apply (.call c) } : Bot) = gateKey b := rfl
    simp only [Bot.onCall]
    split
    · -- Look To itself: the gate is shut
      unfold Bot.onLookTo
      have : (({ b with tower := b.tower.apply (.call c) } : Bot).checkStartingRow &&
          ({ b with tower := b.tower.apply (.call c) } : Bot).checkNumberOfBells
            ((({ b with tower := b.tower.apply (.call c) } : Bot).nextGen).getD
              ({ b with tower := b.tower.apply (.call c) } : Bot).gen)) = false := hg
      simp only [this, Bool.false_eq_true, if_false]
      exact fromKey _ hq hr
    · split
      · unfold Bot.onGo
        split
        · exact fromKey _ rfl hr
        · exact fromKey _ hq hr
      · repeat' split
        all_goals first
          | exact fromKey _ rfl hr
          | exact fromKey _ (by simp only [gateKey]; cases b.nextGen <;> rfl) hr
  | setting kvs =>
    simp only []
    split
    · obtain ⟨h1, h2⟩ := foldSettings_key kvs ({ b with tower := b.tower.apply (.setting kvs) } : Bot)
      exact fromKey _ h1 (h2.trans hr)
    · exact fromKey _ rfl hr
  | stopTouch =>
    simp only []
    split
    · exact fromKey _ rfl rfl
    · exact fromKey _ rfl hr
  | userEntered _ _ => exact fromKey _ rfl hr
  | userList _ => exact fromKey _ rfl hr
  | assign bell user =>
    refine fromKey _ ?_ hr
    simp only [gateKey, Bot.n, Tower.size, Tower.apply]
    split <;> rfl
  | userLeft _ => exact fromKey _ rfl hr

/-- Wheatley is idle, the tower has `N` bells and the gate of Look To is shut. -/
def Refusing (N : Nat) (w : World K) : Prop := C07.Idle w ∧ w.bot.n = N ∧ gateB w.bot = false

theorem deliver_refusing (wt : K → K) (N : Nat) (w : World K) (e : Ev) (hk : KeepsTower N e) (h : Refusing N w) :
    Refusing N (World.deliver wt w e) := by
  obtain ⟨⟨hr, hs, hpc⟩, hn, hg⟩ := h
  obtain ⟨dp, _⟩ := deliver_never_rings wt w e
  cases e with
  | resume =>
    have : World.deliver wt w .resume = w := by
      unfold World.deliver
      simp only [hs]
    rw [this]
    exact ⟨⟨hr, hs, hpc⟩, hn, hg⟩
  | msg m =>
    have hsus : w.lookToSuspends m = none := by
      unfold World.lookToSuspends
      cases m with
      | call c =>
        simp only []
        split
        · split
          · have : (w.bot.checkStartingRow && w.bot.checkNumberOfBells (w.bot.nextGen.getD w.bot.gen)) = false := hg
            simp only [this, Bool.false_eq_true, if_false]
          · rfl
        · rfl
      | _ => rfl
    have hd : World.deliver wt w (.msg m) = w.deliverMsg wt m := by
      unfold World.deliver
      simp only [hsus]
    obtain ⟨m1, m2, m3⟩ := onMsg_refusing w.bot m N hk hr hn hg
    have hb : (w.deliverMsg wt m).bot = (w.bot.onMsg m).1 := by
      unfold World.deliverMsg
      simp only []
      split
      · dsimp only; exact (foldl_applyOut_bot_crashed wt _ _ _).1
      · exact (foldl_applyOut_bot_crashed wt _ _ _).1
    have hsu : (w.deliverMsg wt m).suspended = none := by
      unfold World.deliverMsg
      simp only []
      split
      · dsimp only; rw [foldl_applyOut_suspended]; exact hs
      · rw [foldl_applyOut_suspended]; exact hs
    rw [hd]
    refine ⟨⟨by rw [hb]; exact m1, hsu, by rw [← hd, dp]; exact hpc⟩, by rw [hb]; exact m2, by rw [hb]; exact m3⟩

theorem sleep_go_refusing (wt : K → K) (limit : K) (N : Nat) :
    ∀ (events : List (K × Ev)) (w : World K), (∀ ev ∈ events, KeepsTower N ev.2) → Refusing N w →
      Refusing N (World.sleep.go wt limit w events).1 ∧
      (∀ ev ∈ (World.sleep.go wt limit w events).2, KeepsTower N ev.2) := by
  intro events
  induction events with
  | nil => intro w _ h; exact ⟨h, by intro ev hev; cases hev⟩
  | cons ev rest ih =>
    intro w hq h
    obtain ⟨t, m⟩ := ev
    unfold World.sleep.go
    split
    · apply ih _ (fun ev' h' => hq ev' (by simp [h']))
      apply deliver_refusing wt N _ m (hq (t, m) (by simp))
      split
      · exact h
      · exact h
    · exact ⟨h, hq⟩

theorem sleep_refusing (wt : K → K) (endTime : K) (N : Nat) (w : World K) (d : K) (events : List (K × Ev))
    (hq : ∀ ev ∈ events, KeepsTower N ev.2) (h : Refusing N w) :
    Refusing N (World.sleep wt endTime w d events).1 ∧
    (∀ ev ∈ (World.sleep wt endTime w d events).2.1, KeepsTower N ev.2) := by
  unfold World.sleep
  simp only []
  split
  · exact sleep_go_refusing wt endTime N events w hq h
  · obtain ⟨h1, h2⟩ := sleep_go_refusing wt (w.now + d) N events w hq h
    exact ⟨⟨⟨h1.1.1, h1.1.2.1, h1.1.2.2⟩, h1.2.1, h1.2.2⟩, h2⟩

/-- **Too small: nothing is rung, however often Look To is called**: Wheatley is idle and the gate of Look To is
shut (the tower has fewer bells than the method or the start row needs, or more than the start row names).  As long
as the tower's size and the queue stay as they are, any number of Look Tos, Gos and other calls, strikes,
assignments and settings may arrive: for the whole run, of whatever length, Wheatley strikes nothing. -/
theorem refused_look_to_rings_nothing (wt : K → K) (endTime : K) (N : Nat) :
    ∀ (fuel : Nat) (w : World K) (events : List (K × Ev)), Refusing N w → (∀ ev ∈ events, KeepsTower N ev.2) →
      ringsOf (World.run wt endTime fuel w events).1.obs = ringsOf w.obs := by
  intro fuel
  induction fuel with
  | zero => intro w events _ _; rfl
  | succ fuel ih =>
    intro w events h hq
    obtain ⟨hi, ho⟩ := C07.mainStep_idle wt w h.1
    have hb := C07.mainStep_idle_bot wt w h.1
    have hR : Refusing N (w.mainStep wt).1 := ⟨hi, by rw [hb]; exact h.2.1, by rw [hb]; exact h.2.2⟩
    unfold World.run
    split
    · rename_i w1 heq; rw [heq] at ho; exact congrArg ringsOf ho
    · rename_i w1 heq
      rw [heq] at hR ho
      rw [ih w1 events hR hq]; exact congrArg ringsOf ho
    · rename_i w1 d heq
      rw [heq] at hR ho
      obtain ⟨sp, sr⟩ := sleep_never_rings wt endTime w1 d events
      obtain ⟨si, sq⟩ := sleep_refusing wt endTime N w1 d events hq hR
      simp only []
      split
      · rw [sr]; exact congrArg ringsOf ho
      · rw [ih _ _ si sq, sr]; exact congrArg ringsOf ho

end Refused

end Wheatley.C17
