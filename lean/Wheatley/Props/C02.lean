/-
C02 — method rows are exactly what the place notation defines.
-/
import Wheatley.Props.C04
import Wheatley.Lemmas.RoundTripH
namespace Wheatley.C02
open Wheatley.C04

/-- The `k` changes used from row `index` on, read cyclically from the start index. -/
def changesFrom (c : PNCfg) (index k : Nat) : List Places :=
  (List.range k).map (fun j => plainChange c (index + j))

/-- **Row `k` of a plain course is the start row transformed by the first `k` changes of the
notation, read cyclically from the configured start index** — for every notation, stage, start
index (negative included) and `k`. -/
theorem plain_rows (c : PNCfg) :
    ∀ (k : Nat) (g : Gen), g.callPN = [] → g.hasBob = false → g.hasSingle = false →
      (iter c k g).2 = applyAll c.stage g.row (changesFrom c g.index k) := by
  intro k
  induction k with
  | zero => intro g _ _ _; simp [iter, changesFrom, applyAll]
  | succ k ih =>
    intro g hq hb hs
    obtain ⟨h1, h2, h3, h4⟩ := plain_stays_plain c g hq hb hs
    have hc : changesFrom c g.index (k + 1) = plainChange c g.index :: changesFrom c (g.index + 1) k := by
      simp only [changesFrom, List.range_succ_eq_map, List.map_cons, List.map_map]
      simp only [Nat.add_zero, List.cons.injEq, true_and]
      apply List.map_congr_left
      intro a _
      simp only [Function.comp]
      congr 1
      omega
    rw [hc]
    simp only [iter, applyAll]
    have := ih { (pnStep c g).1 with row := (pnStep c g).2, index := g.index + 1 } h2 h3 h4
    rw [this, h1]

/-- The lead index is `(k + start_index) mod lead_len`, also for negative start indices. -/
theorem leadIndex_spec (c : PNCfg) (k : Nat) (h : 0 < c.leadLen) :
    ((leadIndex c k : Nat) : Int) = ((k : Int) + c.startIndex) % (c.leadLen : Int) ∧
    leadIndex c k < c.leadLen := by
  unfold leadIndex
  have hpos : (0 : Int) < (c.leadLen : Int) := by exact_mod_cast h
  have h1 := Int.emod_nonneg ((k : Int) + c.startIndex) (Int.ne_of_gt hpos)
  have h2 := Int.emod_lt_of_pos ((k : Int) + c.startIndex) hpos
  constructor
  · exact Int.toNat_of_nonneg h1
  · omega

/-- For a place-notation generator the operation `next` is `pnStep` whatever the stroke, so the
theorem above is about the rows of any history of `next_row` calls. -/
theorem runOps_next_pn (c : PNCfg) :
    ∀ (hands : List Bool) (g : Gen), g.kind = .pn c →
      evRows (g.runOps (hands.map GenOp.next)).2 = (iter c hands.length g).2 := by
  intro hands
  induction hands with
  | nil => intro g _; simp [Gen.runOps, evRows, iter]
  | cons h hs ih =>
    intro g hk
    simp only [List.map_cons, Gen.runOps, Gen.apply, Gen.next, hk, List.length_cons, iter]
    have hk' : ({ (pnStep c g).1 with row := (pnStep c g).2, index := g.index + 1 } : Gen).kind = .pn c := by
      have := pnStep_cfg c g
      simp only [Gen.cfg, Prod.mk.injEq] at this
      simpa [this.1] using hk
    have := ih _ hk'
    simp only [evRows]
    rw [this]

/-! ### Known facts of real methods, checked on the model for every supported stage
(exhaustive finite tables, `decide +kernel`: no axioms). -/

/-- Number of rows until the start row first returns, ringing alternate strokes from handstroke. -/
def firstReturn (g : Gen) : Nat → Nat → Bool → Option Nat
  | 0, _, _ => none
  | fuel + 1, k, hand =>
    match g.next hand with
    | .ok g' r _ => if r == g.startRow then some (k + 1) else firstReturn g' fuel (k + 1) (!hand)
    | _ => none

def courseLength (g? : Option Gen) (fuel : Nat) : Option Nat :=
  match g? with
  | some g => firstReturn g fuel 0 true
  | none => none

/-- Plain Hunt on `n` comes round after `2n` rows, `n = 3..16` (degenerate below: on two bells the
code's backstroke change `12` makes both places, giving a 3-row cycle). -/
theorem plainHunt_course : ∀ n ∈ List.range' 3 14, courseLength (mkPlainHunt n none) 64 = some (2 * n) := by
  decide +kernel

/-- Grandsire on `n` bells has a lead of `2n` changes and a plain course of `2n(n-2)` rows, `n = 5..16`. -/
theorem grandsire_course : ∀ n ∈ List.range' 5 12,
    courseLength (mkGrandsire n none) 600 = some (2 * n * (n - 2)) := by
  decide +kernel

/-- Stedman on odd `n = 5..15`: a plain course of `12n` rows. -/
theorem stedman_course : ∀ n ∈ [5, 7, 9, 11, 13, 15],
    courseLength (mkStedman n none) 300 = some (12 * n) := by
  decide +kernel

/-- The built-in notations have the documented lead lengths. -/
theorem builtin_lead_lengths :
    (∀ n ∈ List.range' 5 12, (convertPN (grandsireNotation n)).map List.length = some (2 * n)) ∧
    (∀ n ∈ [7, 9, 11, 13, 15], (convertPN (stedmanNotation n)).map List.length = some 12) := by
  decide +kernel

/-- Plain Bob Minor `&x16x16x16,12`: the first lead head is 135264 and the course has 60 rows. -/
theorem plain_bob_minor :
    ∃ g, mkPN 6 "&x16x16x16,12".toList none none 0 none = some g ∧
      (evRows (g.runOps ((List.range 12).map (fun i => GenOp.next (i % 2 == 0)))).2).getLast? = some [1, 3, 5, 2, 6, 4] ∧
      courseLength (some g) 100 = some 60 := by
  refine ⟨(mkPN 6 "&x16x16x16,12".toList none none 0 none).get (by decide +kernel), by simp, ?_, ?_⟩ <;>
    decide +kernel

/-! ### The notation round trip

`Wheatley.RoundTrip` (lemma files `Lemmas/RoundTrip*.lean`) describes a notation by its blocks
(`Block`: an optional `&` / `+`, then changes `Tok`: a cross written `x` or `-` with any number of dots
before and after it, or the bell symbols of a place change), writes it out (`textOf`: a dot only between
two place changes, blocks joined by commas) and says what it stands for (`denoteAll`: in a comma-joined
notation every block palindromic unless marked `+`, a single block palindromic only when marked `&`). -/

open Wheatley.RoundTrip in
/-- **The round trip**: a notation written from its blocks — `x` or `-` for a cross with any number of
dots around it, a dot between two place changes, `&` / `+` in front of a block, blocks joined by commas —
is converted by `convert_pn` to exactly the changes the conventions define. -/
theorem notation_round_trip (bs : List Block) (hne : bs ≠ []) (h : ∀ b ∈ bs, b.WF) :
    convertPN (textOf bs) = some (denoteAll bs) := by
  cases bs with
  | nil => exact absurd rfl hne
  | cons b r =>
    cases r with
    | nil =>
      have hb := h b (by simp)
      have hnc : (textOf [b]).contains ',' = false := by
        simp only [textOf, List.map_cons, List.map_nil, joinWith]
        have := text_nocomma b hb
        simpa using this
      unfold convertPN
      rw [hnc]
      simp only [Bool.false_eq_true, if_false, textOf, List.map_cons, List.map_nil, joinWith]
      rw [RoundTrip.convertBlock_text b hb false]
      simp [denoteAll]
    | cons b2 r2 =>
      unfold convertPN
      have hc : (textOf (b :: b2 :: r2)).contains ',' = true := by
        simp only [textOf, List.map_cons]; exact joinWith_contains _ _ _ _
      rw [hc]
      simp only [if_true]
      have hsplit : splitOn ',' (textOf (b :: b2 :: r2)) = (b :: b2 :: r2).map Block.text := by
        apply splitOn_joinWith
        · simp
        · intro p hp
          simp only [List.mem_map] at hp
          obtain ⟨x, hx, rfl⟩ := hp
          exact text_nocomma x (h x hx)
      rw [hsplit, mapM_blocks _ h]
      simp [denoteAll]


open Wheatley.RoundTrip in
/-- … hence a generator built from a written notation rings the changes the conventions define
(`plain_rows` then gives every row). -/
theorem generator_rings_the_notation (bs : List Block) (hne : bs ≠ []) (h : ∀ b ∈ bs, b.WF)
    (stage : Nat) (bob single : Option (List (Int × List Char))) (startIndex : Int)
    (custom : Option (List Char)) (g : Gen)
    (hg : mkPN stage (textOf bs) bob single startIndex custom = some g) :
    ∃ c : PNCfg, g.kind = .pn c ∧ c.methodPN = denoteAll bs ∧ c.stage = stage ∧ c.startIndex = startIndex := by
  unfold mkPN at hg
  rw [notation_round_trip bs hne h] at hg
  simp only [] at hg
  split at hg
  · cases hg
  · split at hg
    · cases hg
    · split at hg
      · simp only [Option.some.injEq] at hg
        subst hg
        exact ⟨_, rfl, rfl, rfl, rfl⟩
      · cases hg

open Wheatley.RoundTrip in
/-- Non-vacuity: Plain Bob Minor written `&x.16-16..x.16,+12` (dots at will around the crosses). -/
example :
    let bs : List Block :=
      [{ pre := some '&', first := .cross 'x' 0 1,
         rest := [.pl [1, 6], .cross '-' 0 0, .pl [1, 6], .cross 'x' 2 1, .pl [1, 6]] },
       { pre := some '+', first := .pl [1, 2], rest := [] }]
    textOf bs = "&x.16-16..x.16,+12".toList ∧
    denoteAll bs = [[], [1, 6], [], [1, 6], [], [1, 6], [], [1, 6], [], [1, 6], [], [1, 2]] := by
  decide

end Wheatley.C02
