/-
C02 — method rows are exactly what the place notation defines.
-/
import Wheatley.Props.C04
import Wheatley.Lemmas.RoundTripH
import Wheatley.Lemmas.Change
import Wheatley.Lemmas.MethodRows
import Wheatley.Model.World
namespace Wheatley.C02
open Wheatley.C04

/-- The `k` changes used from row `index` on, read cyclically from the start index. -/
def changesFrom (c : PNCfg) (index k : Nat) : List Places :=
  (List.range k).map (fun j => plainChange c (index + j))

/-- **Row `k` of a plain course is the start row transformed by the first `k` changes of the
notation, read cyclically from the configured start index** — for every notation, stage, start
index (negative included) and `k`. -/
theorem plain_rows (c : PNCfg) :
    ∀ (k : Nat) (g : Gen), g.callPN = [] → g.hasBob = false → g.hasSingle = false →
      (iter c k g).2 = applyAll c.stage g.row (changesFrom c g.index k) := by
  intro k
  induction k with
  | zero => intro g _ _ _; simp [iter, changesFrom, applyAll]
  | succ k ih =>
    intro g hq hb hs
    obtain ⟨h1, h2, h3, h4⟩ := plain_stays_plain c g hq hb hs
    have hc : changesFrom c g.index (k + 1) = plainChange c g.index :: changesFrom c (g.index + 1) k := by
      simp only [changesFrom, List.range_succ_eq_map, List.map_cons, List.map_map]
      simp only [Nat.add_zero, List.cons.injEq, true_and]
      apply List.map_congr_left
      intro a _
      simp only [Function.comp]
      congr 1
      omega
    rw [hc]
    simp only [iter, applyAll]
    have := ih { (pnStep c g).1 with row := (pnStep c g).2, index := g.index + 1 } h2 h3 h4
    rw [this, h1]

/-- **`permute` is the change the notation denotes**, as one equation: for every stage, row and
parity-consistent place set, the loop of `permute` gives exactly the row described position by position by
`Spec.at` — named places, the implied lead and the covers keep their bell; the unnamed places exchange in
pairs from the first one up; an unnamed place left without a partner stays. -/
theorem permute_is_the_change (stage : Nat) (row : Row) (P : Places)
    (hc : Consistent stage P (firstPlace P)) : permute stage row P = Spec.apply stage row P :=
  permute_eq_spec stage row P hc

/-- The rows obtained by applying the *denotations* of the given changes one after the other. -/
def specAll (stage : Nat) : Row → List Places → List Row
  | _, [] => []
  | r, p :: ps => Spec.apply stage r p :: specAll stage (Spec.apply stage r p) ps

theorem applyAll_eq_specAll (stage : Nat) (ps : List Places)
    (h : ∀ P ∈ ps, Consistent stage P (firstPlace P)) :
    ∀ r, applyAll stage r ps = specAll stage r ps := by
  induction ps with
  | nil => intro r; rfl
  | cons p ps ih =>
    intro r
    simp only [applyAll, specAll]
    rw [permute_eq_spec stage r p (h p (by simp)), ih (fun P hP => h P (by simp [hP]))]

/-- **Row `k` of a plain course, by denotation**: when the method's changes are parity-consistent, the rows
rung are the start row transformed by the *denotations* of the first `k` changes read cyclically from the
start index — no reference to the swap loop of `permute` remains in the statement. -/
theorem plain_rows_denoted (c : PNCfg) (hc : ∀ i, Consistent c.stage (plainChange c i) (firstPlace (plainChange c i)))
    (k : Nat) (g : Gen) (hq : g.callPN = []) (hb : g.hasBob = false) (hs : g.hasSingle = false) :
    (iter c k g).2 = specAll c.stage g.row (changesFrom c g.index k) := by
  rw [plain_rows c k g hq hb hs]
  apply applyAll_eq_specAll
  intro P hP
  simp only [changesFrom, List.mem_map] at hP
  obtain ⟨j, _, rfl⟩ := hP
  exact hc _

/-- Non-vacuity and a reading of the definition: `x` on four, `14` on six (lead implied for `4`:
no — `1` is named, so the loop starts at place 1), `36` on six with the lead implied. -/
example : Spec.apply 4 [1, 2, 3, 4] [] = [2, 1, 4, 3] ∧
    Spec.apply 6 [1, 2, 3, 4, 5, 6] [1, 4] = [1, 3, 2, 4, 6, 5] ∧
    Spec.apply 6 [1, 2, 3, 4, 5, 6, 7, 8] [3, 6] = [2, 1, 3, 5, 4, 6, 7, 8] ∧
    Spec.apply 6 [1, 2, 3, 4, 5, 6] [2, 5] = [1, 2, 4, 3, 5, 6] := by decide

/-- The lead index is `(k + start_index) mod lead_len`, also for negative start indices. -/
theorem leadIndex_spec (c : PNCfg) (k : Nat) (h : 0 < c.leadLen) :
    ((leadIndex c k : Nat) : Int) = ((k : Int) + c.startIndex) % (c.leadLen : Int) ∧
    leadIndex c k < c.leadLen := by
  unfold leadIndex
  have hpos : (0 : Int) < (c.leadLen : Int) := by exact_mod_cast h
  have h1 := Int.emod_nonneg ((k : Int) + c.startIndex) (Int.ne_of_gt hpos)
  have h2 := Int.emod_lt_of_pos ((k : Int) + c.startIndex) hpos
  constructor
  · exact Int.toNat_of_nonneg h1
  · omega

/-- For a place-notation generator the operation `next` is `pnStep` whatever the stroke, so the
theorem above is about the rows of any history of `next_row` calls. -/
theorem runOps_next_pn (c : PNCfg) :
    ∀ (hands : List Bool) (g : Gen), g.kind = .pn c →
      evRows (g.runOps (hands.map GenOp.next)).2 = (iter c hands.length g).2 := by
  intro hands
  induction hands with
  | nil => intro g _; simp [Gen.runOps, evRows, iter]
  | cons h hs ih =>
    intro g hk
    simp only [List.map_cons, Gen.runOps, Gen.apply, Gen.next, hk, List.length_cons, iter]
    have hk' : ({ (pnStep c g).1 with row := (pnStep c g).2, index := g.index + 1 } : Gen).kind = .pn c := by
      have := pnStep_cfg c g
      simp only [Gen.cfg, Prod.mk.injEq] at this
      simpa [this.1] using hk
    have := ih _ hk'
    simp only [evRows]
    rw [this]

/-! ### Known facts of real methods, checked on the model for every supported stage
(exhaustive finite tables, `decide +kernel`: no axioms). -/

/-- Number of rows until the start row first returns, ringing alternate strokes from handstroke. -/
def firstReturn (g : Gen) : Nat → Nat → Bool → Option Nat
  | 0, _, _ => none
  | fuel + 1, k, hand =>
    match g.next hand with
    | .ok g' r _ => if r == g.startRow then some (k + 1) else firstReturn g' fuel (k + 1) (!hand)
    | _ => none

def courseLength (g? : Option Gen) (fuel : Nat) : Option Nat :=
  match g? with
  | some g => firstReturn g fuel 0 true
  | none => none

/-- Plain Hunt on `n` comes round after `2n` rows, `n = 3..16` (degenerate below: on two bells the
code's backstroke change `12` makes both places, giving a 3-row cycle). -/
theorem plainHunt_course : ∀ n ∈ List.range' 3 14, courseLength (mkPlainHunt n none) 64 = some (2 * n) := by
  decide +kernel

/-- Grandsire on `n` bells has a lead of `2n` changes and a plain course of `2n(n-2)` rows, `n = 5..16`. -/
theorem grandsire_course : ∀ n ∈ List.range' 5 12,
    courseLength (mkGrandsire n none) 600 = some (2 * n * (n - 2)) := by
  decide +kernel

/-- Stedman on odd `n = 5..15`: a plain course of `12n` rows. -/
theorem stedman_course : ∀ n ∈ [5, 7, 9, 11, 13, 15],
    courseLength (mkStedman n none) 300 = some (12 * n) := by
  decide +kernel

/-- The built-in notations have the documented lead lengths. -/
theorem builtin_lead_lengths :
    (∀ n ∈ List.range' 5 12, (convertPN (grandsireNotation n)).map List.length = some (2 * n)) ∧
    (∀ n ∈ [7, 9, 11, 13, 15], (convertPN (stedmanNotation n)).map List.length = some 12) := by
  decide +kernel

/-- Plain Bob Minor `&x16x16x16,12`: the first lead head is 135264 and the course has 60 rows. -/
theorem plain_bob_minor :
    ∃ g, mkPN 6 "&x16x16x16,12".toList none none 0 none = some g ∧
      (evRows (g.runOps ((List.range 12).map (fun i => GenOp.next (i % 2 == 0)))).2).getLast? = some [1, 3, 5, 2, 6, 4] ∧
      courseLength (some g) 100 = some 60 := by
  refine ⟨(mkPN 6 "&x16x16x16,12".toList none none 0 none).get (by decide +kernel), by simp, ?_, ?_⟩ <;>
    decide +kernel

/-! ### The notation round trip

`Wheatley.RoundTrip` (lemma files `Lemmas/RoundTrip*.lean`) describes a notation by its blocks
(`Block`: an optional `&` / `+`, then changes `Tok`: a cross written `x` or `-` with any number of dots
before and after it, or the bell symbols of a place change), writes it out (`textOf`: a dot only between
two place changes, blocks joined by commas) and says what it stands for (`denoteAll`: in a comma-joined
notation every block palindromic unless marked `+`, a single block palindromic only when marked `&`). -/

open Wheatley.RoundTrip in
/-- **The round trip**: a notation written from its blocks — `x` or `-` for a cross with any number of
dots around it, a dot between two place changes, `&` / `+` in front of a block, blocks joined by commas —
is converted by `convert_pn` to exactly the changes the conventions define. -/
theorem notation_round_trip (bs : List Block) (hne : bs ≠ []) (h : ∀ b ∈ bs, b.WF) :
    convertPN (textOf bs) = some (denoteAll bs) := by
  cases bs with
  | nil => exact absurd rfl hne
  | cons b r =>
    cases r with
    | nil =>
      have hb := h b (by simp)
      have hnc : (textOf [b]).contains ',' = false := by
        simp only [textOf, List.map_cons, List.map_nil, joinWith]
        have := text_nocomma b hb
        simpa using this
      unfold convertPN
      rw [hnc]
      simp only [Bool.false_eq_true, if_false, textOf, List.map_cons, List.map_nil, joinWith]
      rw [RoundTrip.convertBlock_text b hb false]
      simp [denoteAll]
    | cons b2 r2 =>
      unfold convertPN
      have hc : (textOf (b :: b2 :: r2)).contains ',' = true := by
        simp only [textOf, List.map_cons]; exact joinWith_contains _ _ _ _
      rw [hc]
      simp only [if_true]
      have hsplit : splitOn ',' (textOf (b :: b2 :: r2)) = (b :: b2 :: r2).map Block.text := by
        apply splitOn_joinWith
        · simp
        · intro p hp
          simp only [List.mem_map] at hp
          obtain ⟨x, hx, rfl⟩ := hp
          exact text_nocomma x (h x hx)
      rw [hsplit, mapM_blocks _ h]
      simp [denoteAll]


open Wheatley.RoundTrip in
/-- … hence a generator built from a written notation rings the changes the conventions define
(`plain_rows` then gives every row). -/
theorem generator_rings_the_notation (bs : List Block) (hne : bs ≠ []) (h : ∀ b ∈ bs, b.WF)
    (stage : Nat) (bob single : Option (List (Int × List Char))) (startIndex : Int)
    (custom : Option (List Char)) (g : Gen)
    (hg : mkPN stage (textOf bs) bob single startIndex custom = some g) :
    ∃ c : PNCfg, g.kind = .pn c ∧ c.methodPN = denoteAll bs ∧ c.stage = stage ∧ c.startIndex = startIndex := by
  unfold mkPN at hg
  rw [notation_round_trip bs hne h] at hg
  simp only [] at hg
  split at hg
  · cases hg
  · split at hg
    · cases hg
    · split at hg
      · simp only [Option.some.injEq] at hg
        subst hg
        exact ⟨_, rfl, rfl, rfl, rfl⟩
      · cases hg

open Wheatley.RoundTrip in
/-- Non-vacuity: Plain Bob Minor written `&x.16-16..x.16,+12` (dots at will around the crosses). -/
example :
    let bs : List Block :=
      [{ pre := some '&', first := .cross 'x' 0 1,
         rest := [.pl [1, 6], .cross '-' 0 0, .pl [1, 6], .cross 'x' 2 1, .pl [1, 6]] },
       { pre := some '+', first := .pl [1, 2], rest := [] }]
    textOf bs = "&x.16-16..x.16,+12".toList ∧
    denoteAll bs = [[], [1, 6], [], [1, 6], [], [1, 6], [], [1, 6], [], [1, 6], [], [1, 2]] := by
  decide


/-! ### System level: what is rung in the method is what the generator produced

The theorems above say what rows a generator produces.  This one says that those are the rows Wheatley rings: in
the timed world of `Model/World.lean`, in every state of every run. -/

section System
variable {K : Type} [Num K]
open MethodRows

/-- **While the method is being rung, the row Wheatley is ringing begins with the row generator's current row** (what
follows it are the cover bells, C01 / C03) - in every state of every run, for any events at any times: calls,
Look To at any moment, selections, size changes in mid-touch, settings, Stop Touch.  "The method is being rung" is
what the Bot's flags say: ringing, and neither the opening row nor rounds.  The generators concerned are those whose
`next_row` cannot raise (`Total`: place notation - hence Grandsire, Stedman and every CCCBR method -, Plain Hunt,
compositions); selections (`Sel`) must be of that kind too.

So every statement about the generator's rows - `plain_rows_denoted`, `generator_rings_the_notation`, C04's call
laws, C03's legality - is a statement about the rows rung. -/
theorem method_rows_are_the_generators (wt : K → K) (endTime : K) (fuel : Nat) (w : World K)
    (events : List (K × Ev)) (hs : ∀ ev ∈ events, Sel ev.2) (h : MethodRows.Inv w.bot) :
    (World.run wt endTime fuel w events).1.bot.isRinging = true →
    (World.run wt endTime fuel w events).1.bot.ringingOpening = false →
    (World.run wt endTime fuel w events).1.bot.ringingRounds = false →
      (World.run wt endTime fuel w events).1.bot.gen.row <+: (World.run wt endTime fuel w events).1.bot.row :=
  fun h1 h2 h3 => (MethodRows.botInvariant.run wt endTime fuel w events hs h).row ⟨h1, h2, h3⟩

/-- The hypothesis holds of a freshly built Bot (it is not ringing). -/
theorem fresh_bot_inv (g : Gen) (u s c : Bool) (nm : Option String) (id : Option Nat) (hg : Total g.kind) :
    MethodRows.Inv (Bot.init g u s c nm id) :=
  { total := hg, queued := (by intro g' hg'; cases hg'), row := (by intro hm; cases hm.1) }

/-- Non-vacuity: Grandsire Triples is a total generator. -/
example : ∃ g, mkGrandsire 7 none = some g ∧ Total g.kind := by
  refine ⟨(mkGrandsire 7 none).get (by decide), by simp, ?_⟩
  decide

end System

end Wheatley.C02
