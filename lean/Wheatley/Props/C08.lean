/-
C08 — Wheatley strikes exactly its own bells: once per row, in order, right stroke.

`tickBegin` samples the bell of the current place and whether a user controls it *before* the rhythm
wait; `tickEnd` runs after the wait with those sampled values (the reading "at the moment of their
turn" = the instant the turn begins, DESIGN.md 6.8).
-/
import Wheatley.Lemmas.Outs
import Wheatley.Lemmas.Cli
import Wheatley.Lemmas.Handlers
namespace Wheatley.C08

/-- **Whose bell**: the ownership test is exactly "unassigned and no name configured, or assigned to
a user whose name is the configured one". -/
theorem ownership_spec (t : Tower) (bell : Nat) (name : Option String) :
    t.isAssignedTo bell name = true ↔
      ((alGet t.assigned bell = none ∧ name = none) ∨
       (∃ id, alGet t.assigned bell = some id ∧ alGet t.userNames id = name)) := by
  unfold Tower.isAssignedTo
  cases h : alGet t.assigned bell with
  | none => simp
  | some id => simp

/-- The turn begins by reading the bell at the current place of the current row and its owner. -/
theorem turn_sample (b : Bot) (bell : Nat) (uc : Bool) (h : b.tickBegin = some (bell, uc)) :
    b.row[b.place]? = some bell ∧ uc = !b.botAssigned bell := by
  unfold Bot.tickBegin at h
  split at h
  · rename_i x hx; injection h with h; injection h with h1 h2; subst h1; exact ⟨hx, h2.symm⟩
  · cases h

/-- **Only its own bells, on the right stroke**: every strike emitted at the end of a turn is of the
sampled bell, that bell was not user-controlled when the turn began, and the stroke sent equals both
the tower view's current stroke of the bell and the stroke of the row being rung — so a server whose
state the view reflects accepts it. -/
theorem strike_law (b : Bot) (bell : Nat) (uc : Bool) (x : Nat) (s : Bool)
    (h : Out.ring x s ∈ (b.tickEnd bell uc).2) :
    x = bell ∧ uc = false ∧ b.tower.getStroke bell = some s ∧ s = b.hand := by
  have key : Out.ring x s ∈ (if uc then [] else b.ringBell bell) := by
    unfold Bot.tickEnd at h
    simp only [] at h
    split at h
    · simp only [List.mem_append] at h
      rcases h with (h | h) | h
      · exact h
      · split at h
        · (have := makeCalls_no_ring b b.calls _ h; simp [Out.isRing] at this)
        · simp at h
      · have := (startNextRow_outs _ false _ h).1; simp [Out.isRing] at this
    · simp only [List.mem_append] at h
      rcases h with h | h
      · exact h
      · split at h
        · (have := makeCalls_no_ring b b.calls _ h; simp [Out.isRing] at this)
        · simp at h
  cases uc with
  | true => simp at key
  | false =>
    simp only [Bool.false_eq_true, if_false, Bot.ringBell] at key
    split at key
    · rename_i st hst
      split at key
      · rename_i heq
        simp at key
        obtain ⟨rfl, rfl⟩ := key
        exact ⟨rfl, rfl, hst, by simpa using heq⟩
      · simp at key
    · simp at key

/-- Together with `turn_sample`: the struck bell was Wheatley's (per the tower view) when its turn
began. -/
theorem strike_owner (b b' : Bot) (bell : Nat) (uc : Bool) (x : Nat) (s : Bool)
    (h0 : b.tickBegin = some (bell, uc)) (h : Out.ring x s ∈ (b'.tickEnd bell uc).2) :
    x = bell ∧ b.botAssigned bell = true ∧ b.row[b.place]? = some bell := by
  obtain ⟨h1, h2, _, _⟩ := strike_law b' bell uc x s h
  obtain ⟨h3, h4⟩ := turn_sample b bell uc h0
  refine ⟨h1, ?_, h3⟩
  rw [h2] at h4
  cases hb : b.botAssigned bell <;> simp [hb] at h4 ⊢

/-- **Once**: a turn emits at most one strike. -/
theorem at_most_one_strike (b : Bot) (bell : Nat) (uc : Bool) :
    ((b.tickEnd bell uc).2.filter Out.isRing).length ≤ 1 := by
  have ho2 : (if b.place == 0 then b.makeCalls b.calls else []).filter Out.isRing = [] := by
    split
    · exact List.filter_eq_nil_iff.mpr (fun o ho => by simp [makeCalls_no_ring b b.calls o ho])
    · rfl
  have ho1 : ((if uc then [] else b.ringBell bell).filter Out.isRing).length ≤ 1 := by
    cases uc
    · simp only [Bool.false_eq_true, if_false, Bot.ringBell]
      split
      · split
        · exact Nat.le_refl 1
        · exact Nat.zero_le _
      · exact Nat.zero_le _
    · exact Nat.zero_le _
  unfold Bot.tickEnd
  simp only []
  split
  · have hsn : ((Bot.startNextRow { b with place := b.place + 1 } false).2).filter Out.isRing = [] :=
      List.filter_eq_nil_iff.mpr (fun o ho => by simp [(startNextRow_outs _ false o ho).1])
    rw [List.filter_append, List.filter_append, ho2, hsn]
    simpa using ho1
  · rw [List.filter_append, ho2]
    simpa using ho1

theorem snrFinish_place (x : Bot) (o : List Out) : (Bot.snrFinish x o).1.place = x.place := by
  unfold Bot.snrFinish
  split
  · rfl
  · have : (x.generateNextRow).1.place = x.place := by
      unfold Bot.generateNextRow
      split
      · rfl
      · split
        · rfl
        · split <;> rfl
    rcases hq : x.generateNextRow with ⟨b3, o9⟩
    rw [hq] at this
    simp only []
    split <;> exact this

theorem snrPrep_place (b : Bot) : b.snrPrep.place = 0 := by
  unfold Bot.snrPrep; split <;> rfl

/-- **In row order**: each turn moves on by exactly one place, or begins the next row at place 0 —
so a (row, place) gets one turn and hence (`at_most_one_strike`) at most one strike. -/
theorem place_advances (b : Bot) (bell : Nat) (uc : Bool) :
    ((b.tickEnd bell uc).1.place = b.place + 1 ∧ (b.tickEnd bell uc).1.rowNumber = b.rowNumber) ∨
    ((b.tickEnd bell uc).1.place = 0) := by
  unfold Bot.tickEnd
  simp only []
  split
  · right
    unfold Bot.startNextRow
    split
    · exact snrPrep_place _
    · simp only []
      rw [snrFinish_place]
      split
      · show (Bot.snrPrep _).place = 0
        exact snrPrep_place _
      · show (Bot.snrPrep _).place = 0
        exact snrPrep_place _
  · left; exact ⟨rfl, rfl⟩

/-! Non-vacuity: with bell 3 assigned to "Alice" and no --name, bell 3 is not Wheatley's and bell 2 is. -/
example :
    let t : Tower := { bellState := [true, true, true, true], assigned := [(3, 11)], userNames := [(11, "Alice")] }
    t.isAssignedTo 3 none = false ∧ t.isAssignedTo 2 none = true ∧ t.isAssignedTo 3 (some "Alice") = true := by
  decide

/-! ### The command line (`Model/Cli.lean`: `console_main`) -/

/-- The name whose bells Wheatley rings is the last `--name` given; without one, none (the unassigned bells). -/
theorem cli_name (c : Parse.Chars) (os : List Cli.Opt) (u : Option (List Char × List Char)) (cfg : Cli.Cfg)
    (h : Cli.consoleMain c os u = .built cfg) : cfg.name = (Cli.namesGiven os).getLast? :=
  (Cli.main_built c os u cfg h).2.2.2.2.2.2.2.2.1

/-! ### Who strikes -/

/-- **Only the main thread strikes.**  Whatever arrives from the server - any message, in any state, also the
second half of a Look To handler that was asleep - the handler that runs on the socket thread emits no
`c_bell_rung`, and it does not move the main thread.  So every strike of Wheatley's is the strike of a turn
(`strike_law`, `at_most_one_strike`), however assignments change and ringers come and go meanwhile. -/
theorem only_the_main_thread_strikes {K : Type} [Num K] (wt : K → K) (w : World K) (e : Ev) :
    (World.deliver wt w e).pc = w.pc ∧ ringsOf (World.deliver wt w e).obs = ringsOf w.obs :=
  deliver_never_rings wt w e

/-- … and the same for a whole sleep of the main thread, however many messages fall due in it. -/
theorem no_strike_while_asleep {K : Type} [Num K] (wt : K → K) (endTime : K) (w : World K) (d : K)
    (events : List (K × Ev)) :
    (World.sleep wt endTime w d events).1.pc = w.pc ∧
    ringsOf (World.sleep wt endTime w d events).1.obs = ringsOf w.obs :=
  sleep_never_rings wt endTime w d events

end Wheatley.C08
