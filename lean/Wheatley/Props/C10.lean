/-
C10 — Wheatley always makes progress and its main loop never dies.

The main loop (`tick`, `start_next_row`) has two failure points in the model: the index
`self._row[self._place]` and the stroke assertion of `start_next_row`.  Both are shown unreachable by
invariants that hold after *every* server message and every turn — for all histories, including
tower-size changes in the middle of a row.
-/
import Wheatley.Props.C07
import Wheatley.Props.C09
import Wheatley.Lemmas.BotInv
import Wheatley.Lemmas.Outs
import Wheatley.Lemmas.Handlers
namespace Wheatley.C10
open Wheatley.C06

/-! ### The stroke assertion cannot fail -/

/-- If a start is armed for `k` boundaries ahead, the row that will start the method is on the
generator's start stroke. -/
def CtrInv (c : Ctl) (startHand : Bool) : Prop :=
  ∀ k, c.roundsLeft = some k → handOf (c.rowNumber + k + 1) = startHand

def BotInv (b : Bot) : Prop := CtrInv b.ctl b.gen.startHand

/-- The invariant makes the assertion pass at a row boundary … -/
theorem assertion_passes (c : Ctl) (i : CtlIn) (hf : i.isFirst = false) (h : CtrInv c i.startHand) :
    assertFails c i = false := by
  unfold assertFails startsNow nextRowNumber
  cases hq : c.roundsLeft with
  | none => simp
  | some k =>
    cases k with
    | succ k => simp
    | zero =>
      have := h 0 hq
      unfold handOf at this
      simp [hf, this]

/-- … and is kept by the boundary. -/
theorem boundary_keeps_inv (c : Ctl) (i : CtlIn) (hf : i.isFirst = false) (h : CtrInv c i.startHand) :
    CtrInv (ctlNext c i) i.startHand := by
  intro k hk
  simp only [ctlNext, startsNow, nextRowNumber, hf] at hk ⊢
  cases hq : c.roundsLeft with
  | none => simp [hq] at hk
  | some j =>
    cases j with
    | zero => simp [hq] at hk
    | succ j =>
      simp [hq] at hk
      subst hk
      have := h (j + 1) hq
      simp only [Bool.false_eq_true, if_false]
      rw [← this]; unfold handOf; congr 1; omega

theorem snrFinish_gen_kind (b : Bot) (o : List Out) : (Bot.snrFinish b o).1.gen.kind = b.gen.kind := by
  unfold Bot.snrFinish
  split
  · rfl
  · have h := (generateNextRow_fields b).1
    rcases hq : b.generateNextRow with ⟨b3, o9⟩
    rw [hq] at h
    simp only []
    split <;> exact h

theorem startNextRow_gen_kind (b : Bot) (f : Bool) : (b.startNextRow f).1.gen.kind = b.gen.kind := by
  unfold Bot.startNextRow
  split
  · rw [(snrPrep_fields b).1]
  · simp only []
    rw [snrFinish_gen_kind]
    split
    · show (Gen.reset _).kind = _; rw [(snrPrep_fields b).1]; rfl
    · show (Bot.snrPrep _).gen.kind = _; rw [(snrPrep_fields b).1]

/-- **A row boundary keeps the invariant and does not fail.** -/
theorem boundary_ok (b : Bot) (h : BotInv b) :
    BotInv (b.startNextRow false).1 ∧ Out.crash "AssertionError" ∉ (b.startNextRow false).2 := by
  have hi : (b.ctlIn false).isFirst = false := rfl
  have hs : (b.ctlIn false).startHand = b.gen.startHand := rfl
  have hpass := assertion_passes b.ctl (b.ctlIn false) hi (by rw [hs]; exact h)
  have hstep : ctlStep b.ctl (b.ctlIn false) = .ok (ctlNext b.ctl (b.ctlIn false)) (startsNow b.ctl) := by
    simp [ctlStep, hpass]
  constructor
  · unfold BotInv
    rw [startNextRow_ctl b false _ _ hstep, startHand_of_kind _ _ (startNextRow_gen_kind b false)]
    have := boundary_keeps_inv b.ctl (b.ctlIn false) hi (by rw [hs]; exact h)
    rw [hs] at this; exact this
  · exact startNextRow_no_assert b false _ _ hstep

/-- **A turn keeps the invariant and never trips the assertion.** -/
theorem turn_ok (b : Bot) (bell : Nat) (uc : Bool) (h : BotInv b) :
    BotInv (b.tickEnd bell uc).1 ∧ Out.crash "AssertionError" ∉ (b.tickEnd bell uc).2 := by
  unfold Bot.tickEnd
  simp only []
  have hb1 : BotInv { b with place := b.place + 1 } := h
  have ho1 : Out.crash "AssertionError" ∉ (if uc then [] else b.ringBell bell) := by
    split
    · simp
    · exact ringBell_no_crash _ _ _
  have ho2 : Out.crash "AssertionError" ∉ (if b.place == 0 then b.makeCalls b.calls else []) := by
    split
    · exact makeCalls_no_crash _ _ _
    · simp
  split
  · obtain ⟨h1, h2⟩ := boundary_ok _ hb1
    refine ⟨h1, ?_⟩
    simp only [List.mem_append, not_or]
    exact ⟨⟨ho1, ho2⟩, h2⟩
  · refine ⟨hb1, ?_⟩
    simp only [List.mem_append, not_or]
    exact ⟨ho1, ho2⟩

/-- `_on_go` keeps / establishes the invariant. -/
theorem go_ok (b : Bot) (h : BotInv b) : BotInv (b.onGo).1 := by
  unfold Bot.onGo
  split
  · intro k hk
    simp only [Bot.ctl] at hk
    injection hk with hk
    subst hk
    simp only [Bot.ctl, Bot.hand]
    by_cases hp : (b.rowNumber % 2 == 0) = b.gen.startHand
    · simp only [hp, beq_self_eq_true, if_true]
      rw [← hp]; unfold handOf
      rcases Nat.mod_two_eq_zero_or_one b.rowNumber with h | h <;> simp [Nat.add_mod, h]
    · have : ((b.rowNumber % 2 == 0) == b.gen.startHand) = false := by simpa using hp
      simp only [this, Bool.false_eq_true, if_false]
      unfold handOf
      cases hs : b.gen.startHand <;> simp [hs] at hp ⊢ <;> omega
  · exact h

/-- Look To establishes the invariant from *any* state (also in the middle of a touch, also with a new
generator of the other start stroke), and its own first boundary cannot fail. -/
theorem look_to_ok (b : Bot) :
    BotInv (b.lookTo).1 ∨ (b.openingRow = [] ∧ (b.lookTo).1 = b) := by
  unfold Bot.lookTo
  cases hop : b.openingRow with
  | nil => right; exact ⟨rfl, rfl⟩
  | cons treble rest =>
    left
    simp only []
    generalize hd : b.armLookTo = d
    have hrl : d.roundsLeft = (if !b.upDownIn then none else if d.gen.startHand then some 2 else some 3) := by
      subst hd; simp [Bot.armLookTo, Generated.upDownInHand, Generated.upDownInBack]
    have hne : startsNow d.ctl = false := by
      simp only [startsNow, Bot.ctl, hrl]
      cases b.upDownIn <;> simp
      split <;> simp
    have hstep : ctlStep d.ctl (d.ctlIn true) = .ok (ctlNext d.ctl (d.ctlIn true)) false := by
      simp [ctlStep, assertFails, hne]
    show BotInv (d.startNextRow true).1
    unfold BotInv
    rw [startNextRow_ctl d true _ _ hstep, startHand_of_kind _ _ (startNextRow_gen_kind d true)]
    intro k hk
    simp only [ctlNext, hne, nextRowNumber, Bot.ctlIn, Bot.ctl, hrl] at hk ⊢
    cases hu : b.upDownIn <;> simp [hu] at hk
    cases hsh : d.gen.startHand <;> simp [hsh] at hk <;> (obtain ⟨_, hk⟩ := hk; subst hk; simp [handOf])

/-- Every other server message leaves counter, row number and start stroke alone (Bob/Single only set
a flag of the generator; a queued generator only becomes current at Look To). -/
theorem msg_ok (b : Bot) (m : Msg) (h : BotInv b) : BotInv (b.onMsg m).1 := by
  have keep : ∀ b' : Bot, b'.ctl.roundsLeft = b.ctl.roundsLeft → b'.ctl.rowNumber = b.ctl.rowNumber →
      b'.gen.kind = b.gen.kind → BotInv b' := by
    intro b' h1 h2 h3 k hk
    rw [h1] at hk
    rw [h2, startHand_of_kind _ _ h3]
    exact h k hk
  have hq0 : BotInv ({ b with tower := b.tower.apply m } : Bot) := keep _ rfl rfl rfl
  generalize ({ b with tower := b.tower.apply m } : Bot) = q at hq0
  have keepq : ∀ b' : Bot, b'.ctl.roundsLeft = q.ctl.roundsLeft → b'.ctl.rowNumber = q.ctl.rowNumber →
      b'.gen.kind = q.gen.kind → BotInv b' := by
    intro b' h1 h2 h3 k hk
    rw [h1] at hk
    rw [h2, startHand_of_kind _ _ h3]
    exact hq0 k hk
  have hsize : BotInv (q.onSizeChange).1 := by
    simp only [Bot.onSizeChange]; split <;> exact keepq _ rfl rfl rfl
  unfold Bot.onMsg
  simp only []
  cases m with
  | bellRung state who => simp only []; split <;> (try split) <;> first | exact hq0 | exact keep _ rfl rfl rfl
  | globalState state => first | exact hsize | (simp only [Bot.onSizeChange]; split <;> exact keep _ rfl rfl rfl)
  | userEntered id name => first | exact hq0 | exact keep _ rfl rfl rfl
  | userList users => first | exact hq0 | exact keep _ rfl rfl rfl
  | sizeChange n =>
    simp only []
    split
    · first | exact hsize | (simp only [Bot.onSizeChange]; split <;> exact keep _ rfl rfl rfl)
    · first | exact hq0 | exact keep _ rfl rfl rfl
  | assign bell user => first | exact hq0 | exact keep _ rfl rfl rfl
  | call c =>
    simp only [Bot.onCall]
    split
    · unfold Bot.onLookTo
      split
      · first
        | (rcases look_to_ok q with h1 | h1
           · exact h1
           · rw [h1.2]; exact hq0)
        | (rcases look_to_ok b with h1 | h1
           · exact h1
           · rw [h1.2]; exact h)
        | (rcases look_to_ok ({ b with tower := b.tower.apply (Msg.call c) } : Bot) with h1 | h1
           · exact h1
           · rw [h1.2]; exact keep _ rfl rfl rfl)
      · first | exact hq0 | exact h
    · split
      · first | exact go_ok q hq0 | exact go_ok b h
      · repeat' split
        all_goals first | exact keepq _ rfl rfl rfl | exact keep _ rfl rfl rfl
  | userLeft id => first | exact hq0 | exact keep _ rfl rfl rfl
  | setting kvs =>
    simp only []
    have : ∀ (l : List (String × SVal)) (b' : Bot), BotInv b' → BotInv (foldSettings b' l).1 := by
      intro l
      induction l with
      | nil => intro b' hb'; exact hb'
      | cons kv rest ih =>
        intro b' hb'
        obtain ⟨k, v⟩ := kv
        simp only [foldSettings]
        apply ih
        simp only [Bot.onSetting]
        repeat' split
        all_goals exact hb'
    split
    · first | exact this kvs q hq0 | exact this kvs _ h
    · first | exact hq0 | exact h
  | rowGen g =>
    simp only []
    split
    · split <;> first | exact keepq _ rfl rfl rfl | exact keep _ rfl rfl rfl
    · first | exact hq0 | exact h
  | stopTouch => simp only []; split <;> first | exact keepq _ rfl rfl rfl | exact keep _ rfl rfl rfl

/-- The initial Bot satisfies the invariant. -/
theorem init_ok (g : Gen) (u s c : Bool) (n : Option String) (id : Option Nat) : BotInv (Bot.init g u s c n id) := by
  intro k hk; simp [Bot.init, Bot.ctl] at hk

/-! ### The row index cannot run off the row -/

/-- While ringing, the place indexes the row being rung. -/
def PlaceInv (b : Bot) : Prop := b.isRinging = true → b.place < b.row.length

/-- The invariant is what the first half of a turn needs. -/
theorem turn_begins (b : Bot) (h : PlaceInv b) (hr : b.isRinging = true) : b.tickBegin ≠ none := by
  unfold Bot.tickBegin
  have := h hr
  rw [List.getElem?_eq_getElem this]
  simp

theorem snrFinish_place_row (b : Bot) (o : List Out) (h1 : b.openingRow ≠ []) (h2 : b.rounds ≠ []) (hp : b.place = 0) :
    ((Bot.snrFinish b o).1.isRinging = true → (Bot.snrFinish b o).1.place < (Bot.snrFinish b o).1.row.length) ∨
    (∃ e, Out.crash e ∈ (Bot.snrFinish b o).2) := by
  unfold Bot.snrFinish
  split
  · rename_i hr
    left; intro h; simp only [] at h; simp [h] at hr
  · have hf := generateNextRow_fields b
    have hrow := generateNextRow_row_ne b h1 h2
    rcases hq : b.generateNextRow with ⟨b3, o9⟩
    rw [hq] at hf hrow
    simp only [] at hf hrow ⊢
    rcases hrow with hrow | ⟨e, he⟩
    · left
      have hlen : b3.place < b3.row.length := by
        rw [hf.2.2.2.1, hp]; exact List.length_pos_iff.mpr hrow
      split <;> (intro _; exact hlen)
    · right
      split <;> exact ⟨e, by simp [he]⟩

/-- **A turn keeps the index inside the row** — even when the tower size changed during the row
(the row ends at `min(tower size, row length)`) — unless the generator itself raised. -/
theorem turn_keeps_place (b : Bot) (bell : Nat) (uc : Bool) (h1 : b.openingRow ≠ []) (h2 : b.rounds ≠ []) :
    PlaceInv (b.tickEnd bell uc).1 ∨ (∃ e, Out.crash e ∈ (b.tickEnd bell uc).2) := by
  unfold Bot.tickEnd
  simp only []
  split
  · -- a new row begins
    generalize hq : ({ b with place := b.place + 1 } : Bot) = q
    have hq1 : q.openingRow ≠ [] := by subst hq; exact h1
    have hq2 : q.rounds ≠ [] := by subst hq; exact h2
    have key : PlaceInv (q.startNextRow false).1 ∨ (∃ e, Out.crash e ∈ (q.startNextRow false).2) := by
      unfold Bot.startNextRow
      split
      · right; exact ⟨"AssertionError", by simp⟩
      · simp only []
        have hprep := snrPrep_fields q
        split
        · exact snrFinish_place_row _ _ (by show q.snrPrep.openingRow ≠ []; rw [hprep.2.1]; exact hq1)
            (by show q.snrPrep.rounds ≠ []; rw [hprep.2.2.1]; exact hq2) (by show q.snrPrep.place = 0; exact hprep.2.2.2.1)
        · exact snrFinish_place_row _ _ (by show q.snrPrep.openingRow ≠ []; rw [hprep.2.1]; exact hq1)
            (by show q.snrPrep.rounds ≠ []; rw [hprep.2.2.1]; exact hq2) (by show q.snrPrep.place = 0; exact hprep.2.2.2.1)
    rcases hs : q.startNextRow false with ⟨x, o⟩
    rw [hs] at key
    simp only [] at key ⊢
    rcases key with h | ⟨e, he⟩
    · left; exact h
    · right; exact ⟨e, by simp [he]⟩
  · rename_i hlt
    left
    intro _
    have : b.place + 1 < min b.tower.size b.row.length := by
      simpa [Bot.n] using hlt
    show b.place + 1 < b.row.length
    omega

/-- Look To puts the index at 0 of the (non-empty) opening row. -/
theorem look_to_place (b : Bot) (treble : Nat) (rest : Row) (h : b.openingRow = treble :: rest) (h2 : b.rounds ≠ []) :
    PlaceInv (b.lookTo).1 ∨ (∃ e, Out.crash e ∈ (b.lookTo).2) := by
  unfold Bot.lookTo
  simp only [h]
  generalize hd : b.armLookTo = d
  have hd1 : d.openingRow = treble :: rest := by subst hd; exact h
  have hd2 : d.rounds ≠ [] := by subst hd; exact h2
  have : PlaceInv (d.startNextRow true).1 ∨ (∃ e, Out.crash e ∈ (d.startNextRow true).2) := by
    unfold Bot.startNextRow
    split
    · right; exact ⟨"AssertionError", by simp⟩
    · simp only []
      have hprep := snrPrep_fields d
      split
      · exact snrFinish_place_row _ _ (by show d.snrPrep.openingRow ≠ []; rw [hprep.2.1, hd1]; simp)
          (by show d.snrPrep.rounds ≠ []; rw [hprep.2.2.1]; exact hd2) (by show d.snrPrep.place = 0; exact hprep.2.2.2.1)
      · exact snrFinish_place_row _ _ (by show d.snrPrep.openingRow ≠ []; rw [hprep.2.1, hd1]; simp)
          (by show d.snrPrep.rounds ≠ []; rw [hprep.2.2.1]; exact hd2) (by show d.snrPrep.place = 0; exact hprep.2.2.2.1)
  rcases hq : d.startNextRow true with ⟨x, o⟩
  rw [hq] at this
  simp only [] at this ⊢
  rcases this with h | ⟨e, he⟩
  · left; exact h
  · right; exact ⟨e, by simp [he]⟩

/-- A size change never touches the row being rung or the place (only what the *next* rows are built
from), so the index stays valid across it. -/
theorem size_change_keeps_place (b : Bot) (h : PlaceInv b) : PlaceInv (b.onSizeChange).1 := by
  unfold Bot.onSizeChange
  split
  · exact h
  · exact h

/-- After a size change to a non-empty tower, opening row and rounds are non-empty again. -/
theorem size_change_rows (b : Bot) (hn : 0 < b.n) (op : Row) (h : startingRow b.n b.gen.customStart = some op) :
    (b.onSizeChange).1.openingRow ≠ [] ∧ (b.onSizeChange).1.rounds ≠ [] := by
  unfold Bot.onSizeChange
  simp only [h]
  constructor
  · show op ≠ []
    unfold startingRow at h
    split at h
    · injection h with h; subst h
      intro e; have := congrArg List.length e; simp [rounds] at this; omega
    · split at h
      · cases h
      · injection h with h; subst h
        unfold appendMissing
        intro e
        obtain ⟨e1, e2⟩ := List.append_eq_nil_iff.mp e
        rename_i c _
        subst e1
        have : (1 : Nat) ∈ List.filter (fun b => !([] : Row).contains b) (List.map (· + 1) (List.range b.n)) := by
          simp [List.mem_filter]; exact hn
        rw [e2] at this; simp at this
  · show rounds b.n ≠ []
    intro e; have := congrArg List.length e; simp [rounds] at this; omega

/-! ### Progress in waiting mode -/

/-- A wait ends at the first test after the awaited bell has been heard on the current stroke
(`C09.own_strike_disarms` says hearing it empties the test): the turn completes within one poll. -/
theorem wait_ends_when_heard {K : Type} [Num K] (w : World K) (wt : K → K) (wr : WaitR K) (bell : Nat) (hand : Bool)
    (d : K) (js : Bool) (hw : w.rh.wait = some wr) (h : bell ∉ wr.expected hand) :
    ∃ w' : World K, w.afterInner wt bell true hand d js = w'.finishTick wt bell true := by
  unfold World.afterInner
  have : (wr.expected hand).contains bell = false := by simpa using h
  simp only [hw, if_true, this, Bool.not_false, Bool.or_true]
  exact ⟨_, rfl⟩

end Wheatley.C10

namespace Wheatley.C10
open Wheatley.C06

/-! ### The place holder is never asked for a row

In server mode Wheatley starts with a `PlaceHolderGenerator` (stage 0) whose `_gen_row` raises
`NullRowGenError`.  A touch can begin with it: `server_main` calls `look_to_has_been_called` directly
when the instance is spawned with `--look-to-time`, whether or not a row generator has arrived.  The
main loop survives because the method start of `start_next_row` re-checks the number of bells
(`_check_number_of_bells()` is false for stage 0): Wheatley calls `Stand` and keeps ringing rounds. -/

/-- While the current generator is the place holder, Wheatley is ringing rounds or the opening row. -/
def HolderInv (b : Bot) : Prop := b.gen.stage = 0 → (b.ringingRounds = true ∨ b.ringingOpening = true)

theorem holder_not_fit (b : Bot) (h : b.gen.stage = 0) : b.checkNumberOfBells b.gen = false := by
  unfold Bot.checkNumberOfBells; simp [h]

/-- The control machine keeps "rounds or opening row" when the generator does not fit the tower. -/
theorem ctlNext_holder (c : Ctl) (i : CtlIn) (hfit : i.fits = false)
    (h : c.ringingRounds = true ∨ c.ringingOpening = true) :
    (ctlNext c i).ringingRounds = true ∨ (ctlNext c i).ringingOpening = true := by
  simp only [ctlNext, hfit]
  by_cases hs : startsNow c = true
  · left; simp [hs]
  · have hs' : startsNow c = false := by simpa using hs
    rcases h with h | h
    · left; simp [hs', h]
    · right; simp [hs', h]

/-- `generate_next_row` does not touch the generator while rounds or the opening row is being rung. -/
theorem generateNextRow_rounds (b : Bot) (h : b.ringingRounds = true ∨ b.ringingOpening = true) :
    (b.generateNextRow).2 = [] ∧ (b.generateNextRow).1.gen = b.gen ∧
    (b.generateNextRow).1.ctl = b.ctl := by
  unfold Bot.generateNextRow
  by_cases ho : b.ringingOpening = true
  · simp [ho, Bot.ctl]
  · have ho' : b.ringingOpening = false := by simpa using ho
    have hr : b.ringingRounds = true := by rcases h with h | h; exact h; exact absurd h ho
    simp [ho', hr, Bot.ctl]

theorem snrFinish_holder (b : Bot) (o4 : List Out) (e : String) (h4 : Out.crash e ∉ o4)
    (h : b.ringingRounds = true ∨ b.ringingOpening = true) :
    Out.crash e ∉ (Bot.snrFinish b o4).2 ∧ (Bot.snrFinish b o4).1.gen = b.gen := by
  unfold Bot.snrFinish
  split
  · exact ⟨h4, rfl⟩
  · obtain ⟨h1, h2, -⟩ := generateNextRow_rounds b h
    rcases hq : b.generateNextRow with ⟨b3, o9⟩
    rw [hq] at h1 h2
    simp only [] at h1 h2 ⊢
    subst h1
    simp only [List.any_nil, Bool.false_eq_true, if_false, List.append_nil]
    refine ⟨?_, h2⟩
    simp only [List.mem_append, not_or]
    refine ⟨h4, ?_⟩
    intro hm
    have := expectAll_snrKind b3 _ hm
    unfold Bot.expectAll at hm
    simp only [List.mem_map] at hm
    obtain ⟨p, _, hp⟩ := hm
    cases hp

/-- **A row boundary with the place holder**: no exception of the generator (it is not asked for a
row), the invariant is kept, and the generator stays. -/
theorem holder_boundary (b : Bot) (f : Bool) (hg : b.gen.stage = 0)
    (h : b.ringingRounds = true ∨ b.ringingOpening = true) :
    Out.crash "NullRowGenError" ∉ (b.startNextRow f).2 ∧
    ((b.startNextRow f).1.ringingRounds = true ∨ (b.startNextRow f).1.ringingOpening = true) ∧
    (b.startNextRow f).1.gen.stage = 0 := by
  have hkind : (b.startNextRow f).1.gen.stage = 0 := by
    unfold Gen.stage; rw [startNextRow_gen_kind]; exact hg
  refine ⟨?_, ?_, hkind⟩
  · unfold Bot.startNextRow
    cases hq : ctlStep b.ctl (b.ctlIn f) with
    | crash => simp
    | ok c started =>
      simp only []
      have hc : c = ctlNext b.ctl (b.ctlIn f) := by
        unfold ctlStep at hq; split at hq <;> simp at hq; exact hq.1.symm
      have hfit : (b.ctlIn f).fits = false := holder_not_fit b hg
      have hflags := ctlNext_holder b.ctl (b.ctlIn f) hfit h
      rw [← hc] at hflags
      refine (snrFinish_holder _ _ _ ?_ ?_).1
      · split
        · exact makeCalls_no_crash _ _ _
        · simp
      · simpa [Bot.withCtl] using hflags
  · cases hq : ctlStep b.ctl (b.ctlIn f) with
    | crash =>
      have he : (b.startNextRow f).1 = b.snrPrep := by unfold Bot.startNextRow; rw [hq]
      rw [he]; unfold Bot.snrPrep
      cases b.roundsLeft <;> exact h
    | ok c started =>
      have hctl := startNextRow_ctl b f c started hq
      have hc : c = ctlNext b.ctl (b.ctlIn f) := by
        unfold ctlStep at hq; split at hq <;> simp at hq; exact hq.1.symm
      have hflags := ctlNext_holder b.ctl (b.ctlIn f) (holder_not_fit b hg) h
      rw [← hc, ← hctl] at hflags
      exact hflags

/-- **A whole turn with the place holder** never raises `NullRowGenError` and keeps the invariant. -/
theorem holder_turn (b : Bot) (bell : Nat) (uc : Bool) (hg : b.gen.stage = 0)
    (h : b.ringingRounds = true ∨ b.ringingOpening = true) :
    Out.crash "NullRowGenError" ∉ (b.tickEnd bell uc).2 ∧
    ((b.tickEnd bell uc).1.ringingRounds = true ∨ (b.tickEnd bell uc).1.ringingOpening = true) ∧
    (b.tickEnd bell uc).1.gen.stage = 0 := by
  unfold Bot.tickEnd
  simp only []
  have ho1 : Out.crash "NullRowGenError" ∉ (if uc then [] else b.ringBell bell) := by
    split
    · simp
    · exact ringBell_no_crash _ _ _
  have ho2 : Out.crash "NullRowGenError" ∉ (if b.place == 0 then b.makeCalls b.calls else []) := by
    split
    · exact makeCalls_no_crash _ _ _
    · simp
  split
  · obtain ⟨h1, h2, h3⟩ := holder_boundary { b with place := b.place + 1 } false hg h
    refine ⟨?_, h2, h3⟩
    simp only [List.mem_append, not_or]
    exact ⟨⟨ho1, ho2⟩, h1⟩
  · refine ⟨?_, h, hg⟩
    simp only [List.mem_append, not_or]
    exact ⟨ho1, ho2⟩

/-- **Look To with the place holder as the generator to be rung** (the spawn path: `server_main` calls
`look_to_has_been_called` without the gate of `_on_look_to`): the touch starts in rounds and no
exception of the generator is raised. -/
theorem holder_look_to (b : Bot) (hg : (b.nextGen.getD b.gen).stage = 0) (hb : HolderInv b) :
    Out.crash "NullRowGenError" ∉ (b.lookTo).2 ∧
    ((b.lookTo).1.gen.stage = 0 → ((b.lookTo).1.ringingRounds = true ∨ (b.lookTo).1.ringingOpening = true)) := by
  unfold Bot.lookTo
  split
  · exact ⟨by simp, fun hs => hb hs⟩
  · have ha : b.armLookTo.gen.stage = 0 := hg
    have hf : b.armLookTo.ringingRounds = true ∨ b.armLookTo.ringingOpening = true := Or.inl rfl
    obtain ⟨h1, h2, h3⟩ := holder_boundary b.armLookTo true ha hf
    rcases hq : b.armLookTo.startNextRow true with ⟨d, o⟩
    rw [hq] at h1 h2 h3
    simp only [] at h1 h2 h3 ⊢
    refine ⟨?_, fun _ => h2⟩
    simp only [List.cons_append, List.nil_append, List.mem_cons, not_or]
    exact ⟨by simp, by simp, h1⟩

/-- Calls keep the invariant (`Look To` re-establishes it through `holder_look_to` or leaves the Bot
alone; `Rounds` only raises a flag; nothing else touches the two flags or the current generator). -/
theorem holder_call_other (b : Bot) (c : String) (hc : c ≠ Generated.call_LOOK_TO) (h : HolderInv b) :
    HolderInv (b.onCall c).1 := by
  unfold Bot.onCall
  simp only [hc, beq_iff_eq, if_false]
  unfold HolderInv at *
  split
  · unfold Bot.onGo; split
    · exact h
    · exact h
  · split
    · intro hs; exact h (by simpa [Gen.stage, Gen.setBob] using hs)
    · split
      · intro hs; exact h (by simpa [Gen.stage, Gen.setSingle] using hs)
      · split
        · exact h
        · split
          · intro _; right; rfl
          · split
            · exact h
            · exact h

/-- Non-vacuity: a freshly started server-mode Bot holds the place holder, satisfies the invariant, and
its spawn-path Look To (tower of six loaded) rings rounds without an exception. -/
example : HolderInv (Bot.init mkPlaceholder true false true (some "Wheatley") (some 1)) ∧
    mkPlaceholder.stage = 0 := by
  refine ⟨fun _ => Or.inr rfl, rfl⟩

def spawned : Bot := ((Bot.init mkPlaceholder true false true (some "Wheatley") (some 1)).onMsg
                (.globalState [true, true, true, true, true, true])).1

example : (spawned.lookTo).1.isRinging = true ∧ (spawned.lookTo).1.row = [1, 2, 3, 4, 5, 6] ∧
      (spawned.lookTo).2.any (fun o => match o with | .crash _ => true | _ => false) = false := by
  decide

/-! ### No run, of any length, under any messages, trips the stroke assertion -/

section Runs
variable {K : Type} [Num K]

/-- Arming at Look To and the first row of the touch establish the invariant, and do not assert. -/
theorem arm_start_ok (b : Bot) :
    BotInv (b.armLookTo.startNextRow true).1 ∧ Out.crash "AssertionError" ∉ (b.armLookTo.startNextRow true).2 := by
  generalize hd : b.armLookTo = d
  have hrl : d.roundsLeft = (if !b.upDownIn then none else if d.gen.startHand then some 2 else some 3) := by
    subst hd; simp [Bot.armLookTo, Generated.upDownInHand, Generated.upDownInBack]
  have hne : startsNow d.ctl = false := by
    simp only [startsNow, Bot.ctl, hrl]
    cases b.upDownIn <;> simp
    split <;> simp
  have hstep : ctlStep d.ctl (d.ctlIn true) = .ok (ctlNext d.ctl (d.ctlIn true)) false := by
    simp [ctlStep, assertFails, hne]
  refine ⟨?_, startNextRow_no_assert d true _ _ hstep⟩
  unfold BotInv
  rw [startNextRow_ctl d true _ _ hstep, startHand_of_kind _ _ (startNextRow_gen_kind d true)]
  intro k hk
  simp only [ctlNext, hne, nextRowNumber, Bot.ctlIn, Bot.ctl, hrl] at hk ⊢
  cases hu : b.upDownIn <;> simp [hu] at hk
  cases hsh : d.gen.startHand <;> simp [hsh] at hk <;> (obtain ⟨_, hk⟩ := hk; subst hk; simp [handOf])

theorem lookTo_ok (b : Bot) (h : BotInv b) :
    BotInv b.lookTo.1 ∧ Out.crash "AssertionError" ∉ b.lookTo.2 := by
  unfold Bot.lookTo
  split
  · exact ⟨h, by simp⟩
  · obtain ⟨h1, h2⟩ := arm_start_ok b
    refine ⟨h1, ?_⟩
    simp only [List.cons_append, List.nil_append, List.mem_cons, not_or]
    exact ⟨by simp, by simp, h2⟩

theorem no_assert_crash (outs : List Out) (h : Out.crash "AssertionError" ∉ outs) :
    outs.findSome? isCrash ≠ some "AssertionError" := by
  induction outs with
  | nil => simp
  | cons o rest ih =>
    simp only [List.mem_cons, not_or] at h
    rw [List.findSome?_cons]
    cases o with
    | crash e =>
      simp only [isCrash]
      intro he
      simp only [Option.some.injEq] at he
      subst he
      exact h.1 rfl
    | _ => simp only [isCrash]; exact ih h.2

/-- The invariant of the whole world: the Bot's counter invariant, and the main thread has not died of the
stroke assertion. -/
def WInv (w : World K) : Prop := BotInv w.bot ∧ w.crashed ≠ some "AssertionError"

theorem foldl_inv (wt : K → K) (ct : K) (outs : List Out) (w : World K) (h : WInv w) :
    WInv (outs.foldl (World.applyOut wt ct) w) := by
  obtain ⟨f1, f2⟩ := foldl_applyOut_bot_crashed wt ct outs w
  unfold WInv
  rw [f1, f2]
  exact h

theorem finishTick_inv (wt : K → K) (w : World K) (bell : Nat) (uc : Bool) (h : WInv w) :
    WInv (w.finishTick wt bell uc).1 := by
  unfold World.finishTick
  simp only []
  obtain ⟨hb, hc⟩ := turn_ok w.bot bell uc h.1
  have hw := foldl_inv wt w.now (w.bot.tickEnd bell uc).2 { w with bot := (w.bot.tickEnd bell uc).1 } ⟨hb, h.2⟩
  split
  · rename_i e he
    refine ⟨hw.1, ?_⟩
    show some e ≠ some "AssertionError"
    intro h'
    rw [h'] at he
    exact no_assert_crash _ hc he
  · exact hw

theorem afterInner_inv (wt : K → K) (w : World K) (bell : Nat) (uc hand : Bool) (d : K) (js : Bool) (h : WInv w) :
    WInv (w.afterInner wt bell uc hand d js).1 := by
  unfold World.afterInner
  split
  · split
    · simp only []
      split
      · exact finishTick_inv wt _ bell uc h
      · exact h
    · exact finishTick_inv wt _ bell uc h
  · exact finishTick_inv wt w bell uc h

theorem beginWait_inv (w : World K) (bell : Nat) (uc hand : Bool) (h : WInv w) :
    WInv (w.beginWait bell uc hand).1 := by
  unfold World.beginWait
  split
  · exact h
  · simp only []
    split <;> (split <;> exact h)

/-- One step of the main thread keeps the invariant. -/
theorem mainStep_inv (wt : K → K) (w : World K) (h : WInv w) : WInv (w.mainStep wt).1 := by
  unfold World.mainStep
  split
  · exact h
  · -- waitLoaded
    split
    · split
      · split
        · simp only []
          obtain ⟨hb, hc⟩ := lookTo_ok w.bot h.1
          split
          · rename_i e he
            refine ⟨(foldl_inv wt _ w.bot.lookTo.2 { w with bot := w.bot.lookTo.1 } ⟨hb, h.2⟩).1, ?_⟩
            show some e ≠ some "AssertionError"
            intro h'
            rw [h'] at he
            exact no_assert_crash _ hc he
          · exact foldl_inv wt _ w.bot.lookTo.2 { w with bot := w.bot.lookTo.1 } ⟨hb, h.2⟩
        · exact h
      · exact h
    · exact ⟨h.1, by show some "SocketIOClientError" ≠ _; decide⟩
  · exact h
  · -- idleCheck
    split
    · exact h
    · exact foldl_inv wt w.now _ { w with pc := .ringCheck } h
  · split
    · exact h
    · exact h
  · -- ringCheck
    split
    · split
      · exact ⟨h.1, by show some "IndexError" ≠ _; decide⟩
      · exact beginWait_inv w _ _ _ h
    · exact foldl_inv wt w.now _ { w with pc := .outerTop } h
  · split
    · exact h
    · exact afterInner_inv wt w _ _ _ _ _ h
  · apply afterInner_inv
    split <;> exact h
  · exact afterInner_inv wt w _ _ _ _ _ h
  · exact h

/-- The delivery of any event keeps the invariant. -/
theorem deliver_inv (wt : K → K) (w : World K) (e : Ev) (h : WInv w) : WInv (World.deliver wt w e) := by
  cases e with
  | resume =>
    unfold World.deliver
    simp only []
    split
    · rename_i s _
      unfold World.lookToResume World.lookToRest
      simp only []
      have hin : (World.lookToInner ({ w with suspended := none } : World K) s).bot = w.bot ∧
          (World.lookToInner ({ w with suspended := none } : World K) s).crashed = w.crashed := by
        unfold World.lookToInner
        split
        · obtain ⟨_, _, h3⟩ := withReg_pc_obs ({ w with suspended := none } : World K) _
          exact ⟨h3, withReg_crashed _ _⟩
        · exact ⟨rfl, rfl⟩
      generalize World.lookToInner ({ w with suspended := none } : World K) s = wi at hin
      obtain ⟨hb, _⟩ := arm_start_ok wi.bot
      have hw := foldl_inv wt wi.now (wi.bot.armLookTo.startNextRow true).2
        { wi with bot := (wi.bot.armLookTo.startNextRow true).1 } ⟨hb, by show wi.crashed ≠ _; rw [hin.2]; exact h.2⟩
      split
      · exact hw
      · exact hw
    · exact h
  | msg m =>
    unfold World.deliver
    simp only []
    split
    · unfold World.lookToBegin
      exact h
    · unfold World.deliverMsg
      simp only []
      have hw := foldl_inv wt w.now (w.bot.onMsg m).2 { w with bot := (w.bot.onMsg m).1 } ⟨msg_ok w.bot m h.1, h.2⟩
      split
      · exact hw
      · exact hw

theorem sleep_go_inv (wt : K → K) (limit : K) :
    ∀ (events : List (K × Ev)) (w : World K), WInv w → WInv (World.sleep.go wt limit w events).1 := by
  intro events
  induction events with
  | nil => intro w h; exact h
  | cons ev rest ih =>
    intro w h
    obtain ⟨t, m⟩ := ev
    unfold World.sleep.go
    split
    · apply ih
      apply deliver_inv
      split
      · exact h
      · exact h
    · exact h

theorem sleep_inv (wt : K → K) (endTime : K) (w : World K) (d : K) (events : List (K × Ev)) (h : WInv w) :
    WInv (World.sleep wt endTime w d events).1 := by
  unfold World.sleep
  simp only []
  split
  · exact sleep_go_inv wt endTime events w h
  · exact sleep_go_inv wt (w.now + d) events w h

/-- Every state the world can reach - any number of steps, any events at any times - satisfies the invariant. -/
theorem run_inv (wt : K → K) (endTime : K) :
    ∀ (fuel : Nat) (w : World K) (events : List (K × Ev)), WInv w → WInv (World.run wt endTime fuel w events).1 := by
  intro fuel
  induction fuel with
  | zero => intro w events h; exact h
  | succ fuel ih =>
    intro w events h
    unfold World.run
    have hs := mainStep_inv wt w h
    split
    · rename_i w1 heq; rw [heq] at hs; exact hs
    · rename_i w1 heq; rw [heq] at hs; exact ih w1 events hs
    · rename_i w1 d heq
      rw [heq] at hs
      have hsl := sleep_inv wt endTime w1 d events hs
      simp only []
      split
      · exact hsl
      · exact ih _ _ hsl

/-- **The stroke assertion of `start_next_row` never kills the main loop**: start Wheatley with any generator,
any options, any rhythm; deliver any messages whatsoever, at any times, for as long as you like - selections,
calls in any order, size changes, strikes, settings, Look To during a touch, Go at any moment.  The main thread
does not die of `AssertionError`. -/
theorem never_fails_the_stroke_assertion (wt : K → K) (endTime now : K) (g : Gen) (u s c : Bool) (n : Option String)
    (id : Option Nat) (rh : Rh K) (tape : List (K × K)) (lookToTime : Option K) (fuel : Nat)
    (events : List (K × Ev)) :
    (World.run wt endTime fuel (World.init now (Bot.init g u s c n id) rh tape lookToTime) events).1.crashed
      ≠ some "AssertionError" :=
  (run_inv wt endTime fuel _ events ⟨init_ok g u s c n id, by simp [World.init]⟩).2

end Runs

/-! ### … nor does the row index ever run off the row -/

section NoIndexError
variable {K : Type} [Num K]

theorem snrFinish_rows (b : Bot) (o : List Out) :
    (Bot.snrFinish b o).1.openingRow = b.openingRow ∧ (Bot.snrFinish b o).1.rounds = b.rounds ∧
    (Bot.snrFinish b o).1.tower = b.tower := by
  unfold Bot.snrFinish
  split
  · exact ⟨rfl, rfl, rfl⟩
  · have hf := generateNextRow_fields b
    rcases hq : b.generateNextRow with ⟨b3, o9⟩
    rw [hq] at hf
    simp only [] at hf ⊢
    split <;> exact ⟨hf.2.1, hf.2.2.1, hf.2.2.2.2⟩

/-- `start_next_row` leaves the opening row, rounds and the view of the tower alone. -/
theorem startNextRow_rows (b : Bot) (f : Bool) :
    (b.startNextRow f).1.openingRow = b.openingRow ∧ (b.startNextRow f).1.rounds = b.rounds ∧
    (b.startNextRow f).1.tower = b.tower := by
  unfold Bot.startNextRow
  have hp := snrPrep_fields b
  split
  · exact ⟨hp.2.1, hp.2.2.1, hp.2.2.2.2.1⟩
  · simp only []
    split
    · obtain ⟨h1, h2, h3⟩ := snrFinish_rows (b.snrPrep.resetGen.withCtl _) _
      exact ⟨h1.trans hp.2.1, h2.trans hp.2.2.1, h3.trans hp.2.2.2.2.1⟩
    · obtain ⟨h1, h2, h3⟩ := snrFinish_rows (b.snrPrep.withCtl _) _
      exact ⟨h1.trans hp.2.1, h2.trans hp.2.2.1, h3.trans hp.2.2.2.2.1⟩

theorem generateNextRow_no_index (b : Bot) : Out.crash "IndexError" ∉ (b.generateNextRow).2 := by
  unfold Bot.generateNextRow
  split
  · simp
  · split
    · simp
    · split <;> simp

theorem snrFinish_no_index (b : Bot) (o4 : List Out) (h : Out.crash "IndexError" ∉ o4) :
    Out.crash "IndexError" ∉ (Bot.snrFinish b o4).2 := by
  unfold Bot.snrFinish
  split
  · exact h
  · have hg := generateNextRow_no_index b
    rcases hq : b.generateNextRow with ⟨b3, o9⟩
    rw [hq] at hg
    simp only [] at hg ⊢
    split
    · simp only [List.mem_append, not_or]; exact ⟨h, hg⟩
    · simp only [List.mem_append, not_or]
      refine ⟨⟨h, hg⟩, ?_⟩
      intro hm
      unfold Bot.expectAll at hm
      simp only [List.mem_map] at hm
      obtain ⟨p, _, hp⟩ := hm
      cases hp

theorem startNextRow_no_index (b : Bot) (f : Bool) : Out.crash "IndexError" ∉ (b.startNextRow f).2 := by
  unfold Bot.startNextRow
  split
  · simp
  · simp only []
    apply snrFinish_no_index
    split
    · exact makeCalls_no_crash _ _ _
    · simp

theorem tickEnd_no_index (b : Bot) (bell : Nat) (uc : Bool) : Out.crash "IndexError" ∉ (b.tickEnd bell uc).2 := by
  unfold Bot.tickEnd
  simp only []
  have ho1 : Out.crash "IndexError" ∉ (if uc then [] else b.ringBell bell) := by
    split
    · simp
    · exact ringBell_no_crash _ _ _
  have ho2 : Out.crash "IndexError" ∉ (if b.place == 0 then b.makeCalls b.calls else []) := by
    split
    · exact makeCalls_no_crash _ _ _
    · simp
  split
  · simp only [List.mem_append, not_or]
    exact ⟨⟨ho1, ho2⟩, startNextRow_no_index _ false⟩
  · simp only [List.mem_append, not_or]
    exact ⟨ho1, ho2⟩

theorem tickEnd_rows (b : Bot) (bell : Nat) (uc : Bool) :
    (b.tickEnd bell uc).1.openingRow = b.openingRow ∧ (b.tickEnd bell uc).1.rounds = b.rounds ∧
    (b.tickEnd bell uc).1.tower = b.tower := by
  unfold Bot.tickEnd
  simp only []
  split
  · exact startNextRow_rows ({ b with place := b.place + 1 } : Bot) false
  · exact ⟨rfl, rfl, rfl⟩

/-- The first row of a touch is the opening row: nothing is asked of the generator, nothing can be raised. -/
theorem arm_start_no_crash (b : Bot) (e : String) : Out.crash e ∉ (b.armLookTo.startNextRow true).2 := by
  generalize hd : b.armLookTo = d
  have hro : d.ringingOpening = true := by subst hd; rfl
  have hrl : d.roundsLeft = (if !b.upDownIn then none else if d.gen.startHand then some 2 else some 3) := by
    subst hd; simp [Bot.armLookTo, Generated.upDownInHand, Generated.upDownInBack]
  have hne : startsNow d.ctl = false := by
    simp only [startsNow, Bot.ctl, hrl]
    cases b.upDownIn <;> simp
    split <;> simp
  have hstep : ctlStep d.ctl (d.ctlIn true) = .ok (ctlNext d.ctl (d.ctlIn true)) false := by
    simp [ctlStep, assertFails, hne]
  unfold Bot.startNextRow
  rw [hstep]
  simp only [Bool.false_and, Bool.false_eq_true, if_false]
  have hopen : (d.snrPrep.withCtl (ctlNext d.ctl (d.ctlIn true))).ringingOpening = true := by
    show (ctlNext d.ctl (d.ctlIn true)).ringingOpening = true
    simp only [ctlNext, hne, Bool.false_eq_true, if_false]
    exact hro
  generalize d.snrPrep.withCtl (ctlNext d.ctl (d.ctlIn true)) = q at hopen
  unfold Bot.snrFinish
  split
  · simp
  · have hg : q.generateNextRow = ({ q with row := q.openingRow }, []) := by
      unfold Bot.generateNextRow; simp [hopen]
    rw [hg]
    simp only [List.any_nil, Bool.false_eq_true, if_false, List.append_nil, List.nil_append]
    intro hm
    unfold Bot.expectAll at hm
    simp only [List.mem_map] at hm
    obtain ⟨p, _, hp⟩ := hm
    cases hp

/-- While the tower has bells, the opening row and rounds are not empty, and while Wheatley is ringing the place
indexes the row. -/
def RInv (b : Bot) : Prop :=
  b.tower.bellState ≠ [] ∧ b.openingRow ≠ [] ∧ b.rounds ≠ [] ∧ PlaceInv b

theorem lookTo_rinv (b : Bot) (h : RInv b) : RInv b.lookTo.1 ∧ ∀ e, Out.crash e ∉ b.lookTo.2 := by
  obtain ⟨ht, ho, hr, hp⟩ := h
  obtain ⟨treble, rest, hop⟩ := List.exists_cons_of_ne_nil ho
  have hplace := look_to_place b treble rest hop hr
  unfold Bot.lookTo at hplace ⊢
  simp only [hop] at hplace ⊢
  have hnc := arm_start_no_crash b
  obtain ⟨f1, f2, f3⟩ := startNextRow_rows b.armLookTo true
  refine ⟨⟨?_, ?_, ?_, ?_⟩, ?_⟩
  · rw [f3]; exact ht
  · rw [f1]; show b.openingRow ≠ []; rw [hop]; simp
  · rw [f2]; exact hr
  · rcases hplace with h1 | ⟨e, he⟩
    · exact h1
    · exfalso
      simp only [List.cons_append, List.nil_append, List.mem_cons] at he
      rcases he with he | he | he
      · cases he
      · cases he
      · exact hnc e he
  · intro e he
    simp only [List.cons_append, List.nil_append, List.mem_cons] at he
    rcases he with he | he | he
    · cases he
    · cases he
    · exact hnc e he

theorem onSizeChange_rinv (b : Bot) (h : RInv b) : RInv b.onSizeChange.1 := by
  obtain ⟨ht, ho, hr, hp⟩ := h
  have hpl := size_change_keeps_place b hp
  have hn : 0 < b.n := by
    unfold Bot.n Tower.size
    exact List.length_pos_iff.mpr ht
  cases hs : startingRow b.n b.gen.customStart with
  | none =>
    have : b.onSizeChange = (b, [.crash "ValueError"]) := by unfold Bot.onSizeChange; simp [hs]
    rw [this]
    exact ⟨ht, ho, hr, hp⟩
  | some op =>
    obtain ⟨h1, h2⟩ := size_change_rows b hn op hs
    refine ⟨?_, h1, h2, hpl⟩
    unfold Bot.onSizeChange
    simp only [hs]
    exact ht

/-- Messages whose view of the tower is not empty: strikes and states carry at least one bell, sizes are
positive. -/
def Sane : Ev → Prop
  | .msg (.bellRung st _) => st ≠ []
  | .msg (.globalState st) => st ≠ []
  | .msg (.sizeChange n) => 0 < n
  | _ => True

/-- Every handler keeps the invariant (for sane messages). -/
theorem onMsg_rinv (b : Bot) (m : Msg) (hs : Sane (.msg m)) (h : RInv b) : RInv (b.onMsg m).1 := by
  obtain ⟨ht, ho, hr, hp⟩ := h
  have keep : ∀ b' : Bot, b'.tower.bellState ≠ [] → b'.openingRow = b.openingRow → b'.rounds = b.rounds →
      b'.isRinging = b.isRinging → b'.place = b.place → b'.row = b.row → RInv b' := by
    intro b' h1 h2 h3 h4 h5 h6
    refine ⟨h1, by rw [h2]; exact ho, by rw [h3]; exact hr, ?_⟩
    intro hri
    rw [h5, h6]
    exact hp (by rw [← h4]; exact hri)
  have keepF : ∀ b' : Bot, b'.tower.bellState ≠ [] → b'.openingRow = b.openingRow → b'.rounds = b.rounds →
      b'.isRinging = false → RInv b' := by
    intro b' h1 h2 h3 h4
    refine ⟨h1, by rw [h2]; exact ho, by rw [h3]; exact hr, ?_⟩
    intro hri; rw [h4] at hri; cases hri
  unfold Bot.onMsg
  simp only []
  cases m with
  | bellRung st who =>
    have hst : st ≠ [] := hs
    simp only []
    split
    · exact keep _ hst rfl rfl rfl rfl rfl
    · split <;> exact keep _ hst rfl rfl rfl rfl rfl
  | globalState st =>
    have hst : st ≠ [] := hs
    exact onSizeChange_rinv _ (keep _ hst rfl rfl rfl rfl rfl)
  | sizeChange n =>
    have hn : 0 < n := hs
    have htw : (b.tower.apply (.sizeChange n)).bellState ≠ [] := by
      simp only [Tower.apply]
      split
      · simp only []
        intro e
        have h0 : (List.replicate n true).length = 0 := by rw [e]; rfl
        rw [List.length_replicate] at h0
        omega
      · exact ht
    simp only []
    split
    · exact onSizeChange_rinv _ (keep _ htw rfl rfl rfl rfl rfl)
    · exact keep _ htw rfl rfl rfl rfl rfl
  | call c =>
    have hq : RInv ({ b with tower := b.tower.apply (.call c) } : Bot) := keep _ ht rfl rfl rfl rfl rfl
    simp only [Bot.onCall]
    split
    · unfold Bot.onLookTo
      split
      · exact (lookTo_rinv _ hq).1
      · exact hq
    · split
      · unfold Bot.onGo
        split
        · exact keep _ ht rfl rfl rfl rfl rfl
        · exact hq
      · repeat' split
        all_goals exact keep _ ht rfl rfl rfl rfl rfl
  | setting kvs =>
    simp only []
    have : ∀ (l : List (String × SVal)) (b' : Bot), RInv b' → RInv (foldSettings b' l).1 := by
      intro l
      induction l with
      | nil => intro b' hb'; exact hb'
      | cons kv rest ih =>
        intro b' hb'
        obtain ⟨k, v⟩ := kv
        simp only [foldSettings]
        apply ih
        simp only [Bot.onSetting]
        repeat' split
        all_goals exact hb'
    split
    · exact this kvs _ (keep _ ht rfl rfl rfl rfl rfl)
    · exact keep _ ht rfl rfl rfl rfl rfl
  | rowGen g =>
    simp only []
    split
    · split <;> exact keep _ ht rfl rfl rfl rfl rfl
    · exact keep _ ht rfl rfl rfl rfl rfl
  | stopTouch =>
    simp only []
    split
    · exact keepF _ ht rfl rfl rfl
    · exact keep _ ht rfl rfl rfl rfl rfl
  | userEntered _ _ => exact keep _ ht rfl rfl rfl rfl rfl
  | userList _ => exact keep _ ht rfl rfl rfl rfl rfl
  | assign _ _ =>
    refine keep _ ?_ rfl rfl rfl rfl rfl
    show (b.tower.apply _).bellState ≠ []
    simp only [Tower.apply]
    split <;> exact ht
  | userLeft _ => exact keep _ ht rfl rfl rfl rfl rfl

theorem no_index_crash (outs : List Out) (h : Out.crash "IndexError" ∉ outs) :
    outs.findSome? isCrash ≠ some "IndexError" := by
  induction outs with
  | nil => simp
  | cons o rest ih =>
    simp only [List.mem_cons, not_or] at h
    rw [List.findSome?_cons]
    cases o with
    | crash e =>
      simp only [isCrash]
      intro he
      simp only [Option.some.injEq] at he
      subst he
      exact h.1 rfl
    | _ => simp only [isCrash]; exact ih h.2

theorem no_crash_none (outs : List Out) (h : ∀ e, Out.crash e ∉ outs) : outs.findSome? isCrash = none := by
  induction outs with
  | nil => rfl
  | cons o rest ih =>
    rw [List.findSome?_cons]
    cases o with
    | crash e => exact absurd (List.mem_cons_self) (h e)
    | _ => simp only [isCrash]; exact ih (fun e he => h e (List.mem_cons_of_mem _ he))

/-- The invariant of the whole world: the main thread has not died of `IndexError`, and as long as it is alive the
Bot's rows and place are in order. -/
def WInv2 (w : World K) : Prop := w.crashed ≠ some "IndexError" ∧ (w.pc ≠ .done → RInv w.bot)

theorem foldl_inv2 (wt : K → K) (ct : K) (outs : List Out) (w : World K) (h : WInv2 w) :
    WInv2 (outs.foldl (World.applyOut wt ct) w) := by
  obtain ⟨f1, f2⟩ := foldl_applyOut_bot_crashed wt ct outs w
  unfold WInv2
  rw [f1, f2, foldl_applyOut_pc]
  exact h

theorem finishTick_inv2 (wt : K → K) (w : World K) (bell : Nat) (uc : Bool) (hr : RInv w.bot)
    (hc : w.crashed ≠ some "IndexError") : WInv2 (w.finishTick wt bell uc).1 := by
  unfold World.finishTick
  simp only []
  obtain ⟨ht, ho, hrr, hp⟩ := hr
  obtain ⟨r1, r2, r3⟩ := tickEnd_rows w.bot bell uc
  have hni := tickEnd_no_index w.bot bell uc
  have hplace := turn_keeps_place w.bot bell uc ho hrr
  obtain ⟨fb, fc⟩ := foldl_applyOut_bot_crashed wt w.now (w.bot.tickEnd bell uc).2
    ({ w with bot := (w.bot.tickEnd bell uc).1 } : World K)
  split
  · rename_i e he
    refine ⟨?_, ?_⟩
    · show some e ≠ some "IndexError"
      intro h'
      rw [h'] at he
      exact no_index_crash _ hni he
    · intro hpc; exact absurd rfl hpc
  · rename_i hnone
    have hpl : PlaceInv (w.bot.tickEnd bell uc).1 := by
      rcases hplace with h1 | ⟨e, he⟩
      · exact h1
      · exfalso
        have := List.findSome?_eq_none_iff.mp hnone _ he
        simp [isCrash] at this
    have hR : RInv (List.foldl (World.applyOut wt w.now) ({ w with bot := (w.bot.tickEnd bell uc).1 } : World K)
        (w.bot.tickEnd bell uc).2).bot := by
      rw [fb]
      exact ⟨by rw [r3]; exact ht, by rw [r1]; exact ho, by rw [r2]; exact hrr, hpl⟩
    have hC : (List.foldl (World.applyOut wt w.now) ({ w with bot := (w.bot.tickEnd bell uc).1 } : World K)
        (w.bot.tickEnd bell uc).2).crashed ≠ some "IndexError" := by
      rw [fc]; exact hc
    exact ⟨hC, fun _ => hR⟩

theorem afterInner_inv2 (wt : K → K) (w : World K) (bell : Nat) (uc hand : Bool) (d : K) (js : Bool)
    (hr : RInv w.bot) (hc : w.crashed ≠ some "IndexError") (hpc : w.pc ≠ .done) :
    WInv2 (w.afterInner wt bell uc hand d js).1 := by
  unfold World.afterInner
  split
  · split
    · simp only []
      split
      · exact finishTick_inv2 wt _ bell uc hr hc
      · exact ⟨hc, fun _ => hr⟩
    · exact finishTick_inv2 wt _ bell uc hr hc
  · exact finishTick_inv2 wt w bell uc hr hc

theorem beginWait_bot_crashed (w : World K) (bell : Nat) (uc hand : Bool) :
    (w.beginWait bell uc hand).1.bot = w.bot ∧ (w.beginWait bell uc hand).1.crashed = w.crashed := by
  unfold World.beginWait
  split
  · exact ⟨rfl, rfl⟩
  · simp only []
    split <;> (split <;> exact ⟨rfl, rfl⟩)

/-- One step of the main thread keeps the invariant. -/
theorem mainStep_inv2 (wt : K → K) (w : World K) (h : WInv2 w) : WInv2 (w.mainStep wt).1 := by
  by_cases hd : w.pc = .done
  · unfold World.mainStep
    simp only [hd]
    exact h
  have hr := h.2 hd
  have hc := h.1
  unfold World.mainStep
  split
  · exact h
  · -- waitLoaded
    split
    · split
      · split
        · simp only []
          obtain ⟨hb, hnc⟩ := lookTo_rinv w.bot hr
          have hnone := no_crash_none _ hnc
          split
          · rename_i e he; rw [hnone] at he; cases he
          · refine ⟨?_, fun _ => ?_⟩
            · dsimp only
              rw [(foldl_applyOut_bot_crashed wt _ _ _).2]
              exact hc
            · dsimp only
              rw [(foldl_applyOut_bot_crashed wt _ _ _).1]
              exact hb
        · exact ⟨hc, fun _ => hr⟩
      · exact ⟨hc, fun _ => hr⟩
    · exact ⟨by show some "SocketIOClientError" ≠ _; decide, fun hp => absurd rfl hp⟩
  · exact ⟨hc, fun _ => hr⟩
  · -- idleCheck
    split
    · exact ⟨hc, fun _ => hr⟩
    · exact foldl_inv2 wt w.now _ { w with pc := .ringCheck } ⟨hc, fun _ => hr⟩
  · split
    · exact ⟨hc, fun hp => absurd rfl hp⟩
    · exact ⟨hc, fun _ => hr⟩
  · -- ringCheck
    split
    · rename_i hring
      split
      · rename_i hnone
        exact absurd hnone (turn_begins w.bot hr.2.2.2 hring)
      · refine ⟨?_, fun _ => ?_⟩
        · dsimp only
          rw [(beginWait_bot_crashed w _ _ _).2]
          exact hc
        · dsimp only
          rw [(beginWait_bot_crashed w _ _ _).1]
          exact hr
    · exact foldl_inv2 wt w.now _ { w with pc := .outerTop } ⟨hc, fun _ => hr⟩
  · split
    · exact ⟨hc, fun _ => hr⟩
    · exact afterInner_inv2 wt w _ _ _ _ _ hr hc hd
  · apply afterInner_inv2
    · split <;> exact hr
    · split <;> exact hc
    · split <;> exact hd
  · exact afterInner_inv2 wt w _ _ _ _ _ hr hc hd
  · exact ⟨hc, fun _ => hr⟩

/-- The delivery of any sane event keeps the invariant. -/
theorem deliver_inv2 (wt : K → K) (w : World K) (e : Ev) (hs : Sane e) (h : WInv2 w) : WInv2 (World.deliver wt w e) := by
  obtain ⟨dp, _⟩ := deliver_never_rings wt w e
  by_cases hd : w.pc = .done
  · -- the main thread is over: only "has not died of IndexError" is left to keep
    refine ⟨?_, fun hp => absurd (dp.trans hd) hp⟩
    have hc := h.1
    cases e with
    | resume =>
      unfold World.deliver
      simp only []
      split
      · unfold World.lookToResume World.lookToRest
        simp only []
        have hin : ∀ s, (World.lookToInner ({ w with suspended := none } : World K) s).crashed = w.crashed := by
          intro s
          unfold World.lookToInner
          split
          · exact withReg_crashed _ _
          · rfl
        split
        · dsimp only; rw [(foldl_applyOut_bot_crashed wt _ _ _).2]; dsimp only; rw [hin]; exact hc
        · rw [(foldl_applyOut_bot_crashed wt _ _ _).2]; dsimp only; rw [hin]; exact hc
      · exact hc
    | msg m =>
      unfold World.deliver
      simp only []
      split
      · unfold World.lookToBegin; exact hc
      · unfold World.deliverMsg
        simp only []
        split
        · dsimp only; rw [(foldl_applyOut_bot_crashed wt _ _ _).2]; exact hc
        · rw [(foldl_applyOut_bot_crashed wt _ _ _).2]; exact hc
  have hr := h.2 hd
  have hc := h.1
  cases e with
  | resume =>
    unfold World.deliver
    simp only []
    split
    · rename_i s _
      unfold World.lookToResume World.lookToRest
      simp only []
      have hin : (World.lookToInner ({ w with suspended := none } : World K) s).bot = w.bot ∧
          (World.lookToInner ({ w with suspended := none } : World K) s).crashed = w.crashed := by
        unfold World.lookToInner
        split
        · obtain ⟨_, _, h3⟩ := withReg_pc_obs ({ w with suspended := none } : World K) _
          exact ⟨h3, withReg_crashed _ _⟩
        · exact ⟨rfl, rfl⟩
      generalize World.lookToInner ({ w with suspended := none } : World K) s = wi at hin
      have hri : RInv wi.bot := by rw [hin.1]; exact hr
      obtain ⟨ht, ho, hrr, hp⟩ := hri
      obtain ⟨treble, rest, hop⟩ := List.exists_cons_of_ne_nil ho
      have hl := lookTo_rinv wi.bot ⟨ht, ho, hrr, hp⟩
      have hlt : wi.bot.lookTo.1 = (wi.bot.armLookTo.startNextRow true).1 := by
        unfold Bot.lookTo; simp only [hop]
      have hR : RInv (wi.bot.armLookTo.startNextRow true).1 := by rw [← hlt]; exact hl.1
      refine ⟨?_, fun _ => ?_⟩
      · split
        · dsimp only; rw [(foldl_applyOut_bot_crashed wt _ _ _).2]; dsimp only; rw [hin.2]; exact hc
        · rw [(foldl_applyOut_bot_crashed wt _ _ _).2]; dsimp only; rw [hin.2]; exact hc
      · split
        · dsimp only; rw [(foldl_applyOut_bot_crashed wt _ _ _).1]; exact hR
        · rw [(foldl_applyOut_bot_crashed wt _ _ _).1]; exact hR
    · exact h
  | msg m =>
    unfold World.deliver
    simp only []
    split
    · unfold World.lookToBegin
      exact ⟨hc, fun _ => hr⟩
    · unfold World.deliverMsg
      simp only []
      have hb := onMsg_rinv w.bot m hs hr
      refine ⟨?_, fun _ => ?_⟩
      · split
        · dsimp only; rw [(foldl_applyOut_bot_crashed wt _ _ _).2]; exact hc
        · rw [(foldl_applyOut_bot_crashed wt _ _ _).2]; exact hc
      · split
        · dsimp only; rw [(foldl_applyOut_bot_crashed wt _ _ _).1]; exact hb
        · rw [(foldl_applyOut_bot_crashed wt _ _ _).1]; exact hb

theorem sleep_go_inv2 (wt : K → K) (limit : K) :
    ∀ (events : List (K × Ev)) (w : World K), (∀ ev ∈ events, Sane ev.2) → WInv2 w →
      WInv2 (World.sleep.go wt limit w events).1 ∧ (∀ ev ∈ (World.sleep.go wt limit w events).2, Sane ev.2) := by
  intro events
  induction events with
  | nil => intro w _ h; exact ⟨h, by intro ev hev; cases hev⟩
  | cons ev rest ih =>
    intro w hs h
    obtain ⟨t, m⟩ := ev
    unfold World.sleep.go
    split
    · apply ih _ (fun ev' h' => hs ev' (by simp [h']))
      apply deliver_inv2 wt _ m (hs (t, m) (by simp))
      split
      · exact h
      · exact h
    · exact ⟨h, hs⟩

theorem sleep_inv2 (wt : K → K) (endTime : K) (w : World K) (d : K) (events : List (K × Ev))
    (hs : ∀ ev ∈ events, Sane ev.2) (h : WInv2 w) :
    WInv2 (World.sleep wt endTime w d events).1 ∧ (∀ ev ∈ (World.sleep wt endTime w d events).2.1, Sane ev.2) := by
  unfold World.sleep
  simp only []
  split
  · exact sleep_go_inv2 wt endTime events w hs h
  · obtain ⟨h1, h2⟩ := sleep_go_inv2 wt (w.now + d) events w hs h
    exact ⟨⟨h1.1, h1.2⟩, h2⟩

/-- Every state the world can reach from a state with the tower loaded - any number of steps, any sane events at
any times - satisfies the invariant. -/
theorem run_inv2 (wt : K → K) (endTime : K) :
    ∀ (fuel : Nat) (w : World K) (events : List (K × Ev)), (∀ ev ∈ events, Sane ev.2) → WInv2 w →
      WInv2 (World.run wt endTime fuel w events).1 := by
  intro fuel
  induction fuel with
  | zero => intro w events _ h; exact h
  | succ fuel ih =>
    intro w events hs h
    unfold World.run
    have hm := mainStep_inv2 wt w h
    split
    · rename_i w1 heq; rw [heq] at hm; exact hm
    · rename_i w1 heq; rw [heq] at hm; exact ih w1 events hs hm
    · rename_i w1 d heq
      rw [heq] at hm
      obtain ⟨hsl, hsq⟩ := sleep_inv2 wt endTime w1 d events hs hm
      simp only []
      split
      · exact hsl
      · exact ih _ _ hsq hsl

/-- **`tick()` never indexes past the row**: once the tower's state has arrived (which is when `main_loop` starts:
`wait_loaded`), deliver any messages whatsoever, at any times, for as long as you like - as long as they describe a
tower that has bells (states and strikes carry at least one bell, sizes are positive): size changes in the middle of
a row, Look To during a touch, selections, Stop Touch, anything.  The main thread does not die of `IndexError`. -/
theorem never_indexes_past_the_row (wt : K → K) (endTime : K) (fuel : Nat) (w : World K) (events : List (K × Ev))
    (hs : ∀ ev ∈ events, Sane ev.2) (hr : RInv w.bot) (hc : w.crashed ≠ some "IndexError") :
    (World.run wt endTime fuel w events).1.crashed ≠ some "IndexError" :=
  (run_inv2 wt endTime fuel w events hs ⟨hc, fun _ => hr⟩).1

/-- The hypothesis is what the first global state establishes: a freshly built Bot that has received a non-empty
`s_global_state` (its start row free of repeated bells, as every constructor guarantees) satisfies `RInv`. -/
theorem loaded_ok (g : Gen) (u s c : Bool) (n : Option String) (id : Option Nat) (st : List Bool) (hst : st ≠ [])
    (hg : ∀ cs, g.customStart = some cs → hasDup cs = false) :
    RInv ((Bot.init g u s c n id).onMsg (.globalState st)).1 := by
  unfold Bot.onMsg
  simp only []
  generalize hq : ({ Bot.init g u s c n id with
    tower := (Bot.init g u s c n id).tower.apply (.globalState st) } : Bot) = q
  have hq1 : q.tower.bellState = st := by subst hq; rfl
  have hq2 : q.gen.customStart = g.customStart := by subst hq; rfl
  have hq3 : q.isRinging = false := by subst hq; rfl
  have hn : 0 < q.n := by
    unfold Bot.n Tower.size
    rw [hq1]
    exact List.length_pos_iff.mpr hst
  obtain ⟨op, hop⟩ : ∃ op, startingRow q.n q.gen.customStart = some op := by
    rw [hq2]
    unfold startingRow
    cases hcs : g.customStart with
    | none => exact ⟨_, rfl⟩
    | some cs => simp [hg cs hcs]
  obtain ⟨h1, h2⟩ := size_change_rows q hn op hop
  refine ⟨?_, h1, h2, ?_⟩
  · unfold Bot.onSizeChange
    simp only [hop]
    rw [hq1]; exact hst
  · intro hri
    unfold Bot.onSizeChange at hri
    simp only [hop] at hri
    rw [hq3] at hri
    cases hri

end NoIndexError

end Wheatley.C10
