/-
C16 — compositions are rung row for row and called call for call.
-/
import Wheatley.Lemmas.Outs
import Wheatley.Lemmas.Gen
import Wheatley.Lemmas.Cli
namespace Wheatley.C16

/-- **Row for row**: the `k`-th request to a composition generator yields the `k`-th payload row with
its calls, and rounds (no calls) once the payload is exhausted — whatever the stroke. -/
theorem comp_next (g : Gen) (c : CompCfg) (hand : Bool) (hk : g.kind = .comp c) :
    g.next hand =
      .ok { g with row := (c.rows[g.index]?.map (·.1)).getD (rounds c.stage), index := g.index + 1 }
          ((c.rows[g.index]?.map (·.1)).getD (rounds c.stage))
          ((c.rows[g.index]?.map (·.2)).getD []) := by
  unfold Gen.next
  simp only [hk]
  cases h : c.rows[g.index]? with
  | none => simp
  | some rc => obtain ⟨r, cs⟩ := rc; simp

/-- … hence `n` consecutive requests from a fresh (or reset) generator give the first `n` payload
rows in order, padded with rounds. -/
theorem comp_rows (c : CompCfg) :
    ∀ (hands : List Bool) (g : Gen), g.kind = .comp c →
      evRows (g.runOps (hands.map GenOp.next)).2 =
        (List.range hands.length).map (fun j => (c.rows[g.index + j]?.map (·.1)).getD (rounds c.stage)) := by
  intro hands
  induction hands with
  | nil => intro g _; simp [Gen.runOps, evRows]
  | cons h hs ih =>
    intro g hk
    simp only [List.map_cons, Gen.runOps, Gen.apply, comp_next g c h hk, List.length_cons, evRows]
    rw [ih _ (by simpa using hk)]
    simp only [List.range_succ_eq_map, List.map_cons, List.map_map, Nat.add_zero]
    congr 1
    apply List.map_congr_left
    intro a _
    simp only [Function.comp]
    have : g.index + 1 + a = g.index + (a + 1) := by omega
    rw [this]

/-- **Never calls `Stand`**: the constructor filters it out of every call list, for every payload. -/
theorem no_stand_in_calls (s : List Char) : "Stand" ∉ processCallString s := by
  unfold processCallString
  simp

/-- The stroke of the first composition row is the one implied by the number of opening rounds. -/
theorem comp_start_stroke (stage : Nat) (payload : List (List Char × List Char)) (g : Gen) (first : List Char)
    (c0 : List Char) (rest : List (List Char × List Char)) (hp : payload = (first, c0) :: rest)
    (h : mkComp stage payload = .ok g) :
    ∃ nsr, countLeading first payload 0 = some nsr ∧ g.startHand = (nsr % 2 == 0) := by
  unfold mkComp at h
  rw [hp] at h
  simp only [] at h
  rw [← hp] at h
  split at h
  · cases h
  · rename_i nsr hn
    split at h
    · cases h
    · injection h with h; subst h
      exact ⟨nsr, hn, rfl⟩

/-- **Calls go out with the row's first strike**: a turn makes the row's calls iff it is the turn of
place 0, in the payload's order, before anything the next row brings. -/
theorem calls_with_lead (b : Bot) (bell : Nat) (uc : Bool) :
    ∃ pre post, (b.tickEnd bell uc).2 = pre ++ (if b.place == 0 then b.makeCalls b.calls else []) ++ post ∧
      (∀ o ∈ pre, o.isCall = false) := by
  unfold Bot.tickEnd
  simp only []
  refine ⟨if uc then [] else b.ringBell bell, ?_⟩
  have hpre : ∀ o ∈ (if uc then [] else b.ringBell bell), o.isCall = false := by
    intro o ho
    cases uc
    · simp only [Bool.false_eq_true, if_false, Bot.ringBell] at ho
      split at ho
      · split at ho
        · simp at ho; subst ho; rfl
        · simp at ho
      · simp at ho
    · simp at ho
  split
  · exact ⟨_, rfl, hpre⟩
  · exact ⟨[], by simp, hpre⟩

/-- **`--no-calls`**: with calling off no transition of the Bot emits a call — not the row's calls,
not the missed early calls on a late Go, not even `Stand`. -/
theorem no_calls_tick (b : Bot) (bell : Nat) (uc : Bool) (h : b.callComps = false) :
    ∀ o ∈ (b.tickEnd bell uc).2, o.isCall = false := by
  intro o ho
  unfold Bot.tickEnd at ho
  simp only [makeCalls_off b _ h] at ho
  have hrb : ∀ o ∈ (if uc then [] else b.ringBell bell), o.isCall = false := by
    intro o ho
    cases uc
    · simp only [Bool.false_eq_true, if_false, Bot.ringBell] at ho
      split at ho
      · split at ho
        · simp at ho; subst ho; rfl
        · simp at ho
      · simp at ho
    · simp at ho
  split at ho
  · simp only [List.mem_append] at ho
    rcases ho with (ho | ho) | ho
    · exact hrb o ho
    · split at ho <;> simp at ho
    · cases hc : o.isCall
      · rfl
      · have := ((startNextRow_outs _ false o ho).2 hc).1
        simp [h] at this
  · simp only [List.mem_append] at ho
    rcases ho with ho | ho
    · exact hrb o ho
    · split at ho <;> simp at ho

theorem no_calls_go (b : Bot) (h : b.callComps = false) : (b.onGo).2 = [] := by
  unfold Bot.onGo
  split
  · simp [Bot.makeCalls, h]
  · rfl

/-- **A late Go flushes every missed early call, in order** (most rounds-before-start first). -/
theorem late_go_flush (g : Gen) (left : Nat) :
    missedEarly g left =
      (((g.earlyCalls.filter (fun p => left < p.1)).mergeSort (fun p q => p.1 ≥ q.1)).map (·.2)).flatten := rfl

/-! Non-vacuity: a payload with two opening rounds, a call on the second and on a row. -/
example :
    ∃ g, mkComp 4 [("1234".toList, "".toList), ("1234".toList, "Go; Stand".toList),
                    ("2143".toList, "Bob".toList), ("1234".toList, "".toList)] = .ok g ∧
      g.earlyCalls = [(1, ["Go"])] ∧ g.startHand = true ∧
      evRows (g.runOps [.next true, .next false, .next true]).2 = [[2, 1, 4, 3], [1, 2, 3, 4], [1, 2, 3, 4]] := by
  refine ⟨_, rfl, ?_, ?_, ?_⟩ <;> decide

/-! ### Calls belong to one row -/

/-- `generateNextRow` only replaces the calls when it takes a row from the generator. -/
theorem generateNextRow_calls (b : Bot) (h : b.ringingOpening = true ∨ b.ringingRounds = true) :
    (b.generateNextRow).1.calls = b.calls := by
  unfold Bot.generateNextRow
  rcases h with h | h
  · simp [h]
  · cases ho : b.ringingOpening <;> simp [h]

theorem snrFinish_calls (b2 : Bot) (o4 : List Out) (h : b2.ringingOpening = true ∨ b2.ringingRounds = true) :
    (Bot.snrFinish b2 o4).1.calls = b2.calls := by
  unfold Bot.snrFinish
  split
  · rfl
  · have := generateNextRow_calls b2 h
    revert this
    generalize b2.generateNextRow = p
    obtain ⟨b3, o9⟩ := p
    intro this
    simp only
    split <;> exact this

/-- **No stale calls**: a row of rounds (opening rounds, closing rounds, rounds after "Rounds") that
is not inside the up-down-in / Go countdown carries no calls at all — whatever calls the previous row,
or the previous touch, carried. -/
theorem rounds_carry_no_stale_calls (b : Bot) (isFirst : Bool) (c : Ctl) (started : Bool)
    (hc : ctlStep b.ctl (b.ctlIn isFirst) = .ok c started) (hleft : b.roundsLeft = none)
    (hr : c.ringingOpening = true ∨ c.ringingRounds = true) :
    (b.startNextRow isFirst).1.calls = [] := by
  unfold Bot.startNextRow
  simp only [hc]
  rw [snrFinish_calls _ _ (by cases started <;> exact hr)]
  cases started <;> simp [Bot.withCtl, Bot.resetGen, Bot.snrPrep, hleft]
/-! ### The command line (`Model/Cli.lean`: `console_main`) -/

/-- Wheatley calls the composition unless `--no-calls` was given. -/
theorem cli_no_calls (c : Parse.Chars) (os : List Cli.Opt) (u : Option (List Char × List Char)) (cfg : Cli.Cfg)
    (h : Cli.consoleMain c os u = .built cfg) :
    cfg.callComps = !decide (Cli.Opt.noCalls ∈ os) :=
  (Cli.main_built c os u cfg h).2.2.1

/-- A composition and a custom start row together are refused, with that message. -/
theorem cli_comp_with_start_row (c : Parse.Chars) (a : Cli.Args) (u : Option (List Char × List Char))
    (ref s : List Char) (hc : a.comp = some ref) (hs : a.startRow = some s) :
    Cli.createRowGenerator c a u = .error .exitCompStartRow := by
  unfold Cli.createRowGenerator
  simp [hc, hs]

end Wheatley.C16
