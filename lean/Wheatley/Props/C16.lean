/-
C16 — compositions are rung row for row and called call for call.
-/
import Wheatley.Lemmas.Outs
import Wheatley.Lemmas.Gen
import Wheatley.Lemmas.Cli
import Wheatley.Lemmas.Handlers
import Wheatley.Lemmas.BotInv
namespace Wheatley.C16

/-- **Row for row**: the `k`-th request to a composition generator yields the `k`-th payload row with
its calls, and rounds (no calls) once the payload is exhausted — whatever the stroke. -/
theorem comp_next (g : Gen) (c : CompCfg) (hand : Bool) (hk : g.kind = .comp c) :
    g.next hand =
      .ok { g with row := (c.rows[g.index]?.map (·.1)).getD (rounds c.stage), index := g.index + 1 }
          ((c.rows[g.index]?.map (·.1)).getD (rounds c.stage))
          ((c.rows[g.index]?.map (·.2)).getD []) := by
  unfold Gen.next
  simp only [hk]
  cases h : c.rows[g.index]? with
  | none => simp
  | some rc => obtain ⟨r, cs⟩ := rc; simp

/-- … hence `n` consecutive requests from a fresh (or reset) generator give the first `n` payload
rows in order, padded with rounds. -/
theorem comp_rows (c : CompCfg) :
    ∀ (hands : List Bool) (g : Gen), g.kind = .comp c →
      evRows (g.runOps (hands.map GenOp.next)).2 =
        (List.range hands.length).map (fun j => (c.rows[g.index + j]?.map (·.1)).getD (rounds c.stage)) := by
  intro hands
  induction hands with
  | nil => intro g _; simp [Gen.runOps, evRows]
  | cons h hs ih =>
    intro g hk
    simp only [List.map_cons, Gen.runOps, Gen.apply, comp_next g c h hk, List.length_cons, evRows]
    rw [ih _ (by simpa using hk)]
    simp only [List.range_succ_eq_map, List.map_cons, List.map_map, Nat.add_zero]
    congr 1
    apply List.map_congr_left
    intro a _
    simp only [Function.comp]
    have : g.index + 1 + a = g.index + (a + 1) := by omega
    rw [this]

/-- **Never calls `Stand`**: the constructor filters it out of every call list, for every payload. -/
theorem no_stand_in_calls (s : List Char) : "Stand" ∉ processCallString s := by
  unfold processCallString
  simp

/-- The stroke of the first composition row is the one implied by the number of opening rounds. -/
theorem comp_start_stroke (stage : Nat) (payload : List (List Char × List Char)) (g : Gen) (first : List Char)
    (c0 : List Char) (rest : List (List Char × List Char)) (hp : payload = (first, c0) :: rest)
    (h : mkComp stage payload = .ok g) :
    ∃ nsr, countLeading first payload 0 = some nsr ∧ g.startHand = (nsr % 2 == 0) := by
  unfold mkComp at h
  rw [hp] at h
  simp only [] at h
  rw [← hp] at h
  split at h
  · cases h
  · rename_i nsr hn
    split at h
    · cases h
    · injection h with h; subst h
      exact ⟨nsr, hn, rfl⟩

/-- **Calls go out with the row's first strike**: a turn makes the row's calls iff it is the turn of
place 0, in the payload's order, before anything the next row brings. -/
theorem calls_with_lead (b : Bot) (bell : Nat) (uc : Bool) :
    ∃ pre post, (b.tickEnd bell uc).2 = pre ++ (if b.place == 0 then b.makeCalls b.calls else []) ++ post ∧
      (∀ o ∈ pre, o.isCall = false) := by
  unfold Bot.tickEnd
  simp only []
  refine ⟨if uc then [] else b.ringBell bell, ?_⟩
  have hpre : ∀ o ∈ (if uc then [] else b.ringBell bell), o.isCall = false := by
    intro o ho
    cases uc
    · simp only [Bool.false_eq_true, if_false, Bot.ringBell] at ho
      split at ho
      · split at ho
        · simp at ho; subst ho; rfl
        · simp at ho
      · simp at ho
    · simp at ho
  split
  · exact ⟨_, rfl, hpre⟩
  · exact ⟨[], by simp, hpre⟩

/-- **`--no-calls`**: with calling off no transition of the Bot emits a call — not the row's calls,
not the missed early calls on a late Go, not even `Stand`. -/
theorem no_calls_tick (b : Bot) (bell : Nat) (uc : Bool) (h : b.callComps = false) :
    ∀ o ∈ (b.tickEnd bell uc).2, o.isCall = false := by
  intro o ho
  unfold Bot.tickEnd at ho
  simp only [makeCalls_off b _ h] at ho
  have hrb : ∀ o ∈ (if uc then [] else b.ringBell bell), o.isCall = false := by
    intro o ho
    cases uc
    · simp only [Bool.false_eq_true, if_false, Bot.ringBell] at ho
      split at ho
      · split at ho
        · simp at ho; subst ho; rfl
        · simp at ho
      · simp at ho
    · simp at ho
  split at ho
  · simp only [List.mem_append] at ho
    rcases ho with (ho | ho) | ho
    · exact hrb o ho
    · split at ho <;> simp at ho
    · cases hc : o.isCall
      · rfl
      · have := ((startNextRow_outs _ false o ho).2 hc).1
        simp [h] at this
  · simp only [List.mem_append] at ho
    rcases ho with ho | ho
    · exact hrb o ho
    · split at ho <;> simp at ho

theorem no_calls_go (b : Bot) (h : b.callComps = false) : (b.onGo).2 = [] := by
  unfold Bot.onGo
  split
  · simp [Bot.makeCalls, h]
  · rfl

/-- **A late Go flushes every missed early call, in order** (most rounds-before-start first). -/
theorem late_go_flush (g : Gen) (left : Nat) :
    missedEarly g left =
      (((g.earlyCalls.filter (fun p => left < p.1)).mergeSort (fun p q => p.1 ≥ q.1)).map (·.2)).flatten := rfl

/-! Non-vacuity: a payload with two opening rounds, a call on the second and on a row. -/
example :
    ∃ g, mkComp 4 [("1234".toList, "".toList), ("1234".toList, "Go; Stand".toList),
                    ("2143".toList, "Bob".toList), ("1234".toList, "".toList)] = .ok g ∧
      g.earlyCalls = [(1, ["Go"])] ∧ g.startHand = true ∧
      evRows (g.runOps [.next true, .next false, .next true]).2 = [[2, 1, 4, 3], [1, 2, 3, 4], [1, 2, 3, 4]] := by
  refine ⟨_, rfl, ?_, ?_, ?_⟩ <;> decide

/-! ### Calls belong to one row -/

/-- `generateNextRow` only replaces the calls when it takes a row from the generator. -/
theorem generateNextRow_calls (b : Bot) (h : b.ringingOpening = true ∨ b.ringingRounds = true) :
    (b.generateNextRow).1.calls = b.calls := by
  unfold Bot.generateNextRow
  rcases h with h | h
  · simp [h]
  · cases ho : b.ringingOpening <;> simp [h]

theorem snrFinish_calls (b2 : Bot) (o4 : List Out) (h : b2.ringingOpening = true ∨ b2.ringingRounds = true) :
    (Bot.snrFinish b2 o4).1.calls = b2.calls := by
  unfold Bot.snrFinish
  split
  · rfl
  · have := generateNextRow_calls b2 h
    revert this
    generalize b2.generateNextRow = p
    obtain ⟨b3, o9⟩ := p
    intro this
    simp only
    split <;> exact this

/-- **No stale calls**: a row of rounds (opening rounds, closing rounds, rounds after "Rounds") that
is not inside the up-down-in / Go countdown carries no calls at all — whatever calls the previous row,
or the previous touch, carried. -/
theorem rounds_carry_no_stale_calls (b : Bot) (isFirst : Bool) (c : Ctl) (started : Bool)
    (hc : ctlStep b.ctl (b.ctlIn isFirst) = .ok c started) (hleft : b.roundsLeft = none)
    (hr : c.ringingOpening = true ∨ c.ringingRounds = true) :
    (b.startNextRow isFirst).1.calls = [] := by
  unfold Bot.startNextRow
  simp only [hc]
  rw [snrFinish_calls _ _ (by cases started <;> exact hr)]
  cases started <;> simp [Bot.withCtl, Bot.resetGen, Bot.snrPrep, hleft]
/-! ### The command line (`Model/Cli.lean`: `console_main`) -/

/-- Wheatley calls the composition unless `--no-calls` was given. -/
theorem cli_no_calls (c : Parse.Chars) (os : List Cli.Opt) (u : Option (List Char × List Char)) (cfg : Cli.Cfg)
    (h : Cli.consoleMain c os u = .built cfg) :
    cfg.callComps = !decide (Cli.Opt.noCalls ∈ os) :=
  (Cli.main_built c os u cfg h).2.2.1

/-- A composition and a custom start row together are refused, with that message. -/
theorem cli_comp_with_start_row (c : Parse.Chars) (a : Cli.Args) (u : Option (List Char × List Char))
    (ref s : List Char) (hc : a.comp = some ref) (hs : a.startRow = some s) :
    Cli.createRowGenerator c a u = .error .exitCompStartRow := by
  unfold Cli.createRowGenerator
  simp [hc, hs]

/-! ### No calls at all when told not to - for the whole run -/

section NoCalls
variable {K : Type} [Num K]

/-- The calls among the observations. -/
def callsOf (obs : List (Obs K)) : List (Obs K) := obs.filter (fun o => o.out.isCall)

/-- Anything but the settings channel (which could switch calling back on). -/
def NoSetting : Ev → Prop
  | .msg (.setting _) => False
  | _ => True

theorem foldl_applyOut_no_call (wt : K → K) (ct : K) (outs : List Out) :
    ∀ (w : World K), (∀ o ∈ outs, o.isCall = false) →
      callsOf (outs.foldl (World.applyOut wt ct) w).obs = callsOf w.obs := by
  induction outs with
  | nil => intro w _; rfl
  | cons o rest ih =>
    intro w h
    obtain ⟨_, o1, _⟩ := applyOut_pc_obs wt ct w o
    simp only [List.foldl_cons]
    rw [ih (World.applyOut wt ct w o) (fun o' ho' => h o' (by simp [ho'])), o1]
    simp [callsOf, h o (by simp)]

theorem snrFinish_callComps (b : Bot) (o : List Out) : (Bot.snrFinish b o).1.callComps = b.callComps := by
  unfold Bot.snrFinish
  split
  · rfl
  · have hg : (b.generateNextRow).1.callComps = b.callComps := by
      unfold Bot.generateNextRow
      split
      · rfl
      · split
        · rfl
        · split <;> rfl
    rcases hq : b.generateNextRow with ⟨b3, o9⟩
    rw [hq] at hg
    simp only [] at hg ⊢
    split <;> exact hg

theorem startNextRow_callComps (b : Bot) (f : Bool) : (b.startNextRow f).1.callComps = b.callComps := by
  unfold Bot.startNextRow
  split
  · unfold Bot.snrPrep; split <;> rfl
  · simp only []
    split
    · rw [snrFinish_callComps]; show b.snrPrep.callComps = _; unfold Bot.snrPrep; split <;> rfl
    · rw [snrFinish_callComps]; show b.snrPrep.callComps = _; unfold Bot.snrPrep; split <;> rfl

theorem tickEnd_callComps (b : Bot) (bell : Nat) (uc : Bool) : (b.tickEnd bell uc).1.callComps = b.callComps := by
  unfold Bot.tickEnd
  simp only []
  split
  · exact startNextRow_callComps _ false
  · rfl

theorem lookTo_quiet (b : Bot) (h : b.callComps = false) :
    b.lookTo.1.callComps = false ∧ ∀ o ∈ b.lookTo.2, o.isCall = false := by
  unfold Bot.lookTo
  split
  · exact ⟨h, by intro o ho; simp at ho; rcases ho with rfl | rfl <;> rfl⟩
  · refine ⟨(startNextRow_callComps _ true).trans h, ?_⟩
    intro o ho
    simp only [List.cons_append, List.nil_append, List.mem_cons] at ho
    rcases ho with rfl | rfl | ho
    · rfl
    · rfl
    · cases hc : o.isCall
      · rfl
      · have := (startNextRow_outs b.armLookTo true o ho).2 hc
        have hq : b.armLookTo.callComps = b.callComps := rfl
        rw [hq, h] at this
        cases this.1

theorem onSizeChange_quiet (b : Bot) (h : b.callComps = false) :
    b.onSizeChange.1.callComps = false ∧ ∀ o ∈ b.onSizeChange.2, o.isCall = false := by
  unfold Bot.onSizeChange
  split
  · exact ⟨h, by intro o ho; simp at ho; subst ho; rfl⟩
  · exact ⟨h, by simp⟩

/-- With calling off, no handler (but the settings') makes a call, and calling stays off. -/
theorem onMsg_quiet_calls (b : Bot) (m : Msg) (hq : NoSetting (.msg m)) (h : b.callComps = false) :
    (b.onMsg m).1.callComps = false ∧ ∀ o ∈ (b.onMsg m).2, o.isCall = false := by
  unfold Bot.onMsg
  simp only []
  cases m with
  | bellRung st who =>
    simp only []
    split
    · exact ⟨h, by simp⟩
    · split
      · exact ⟨h, by intro o ho; simp at ho; subst ho; rfl⟩
      · exact ⟨h, by simp⟩
  | globalState st =>
    simp only []
    exact onSizeChange_quiet _ h
  | sizeChange n =>
    simp only []
    split
    · exact onSizeChange_quiet _ h
    · exact ⟨h, by simp⟩
  | call c =>
    simp only [Bot.onCall]
    split
    · unfold Bot.onLookTo
      split
      · exact lookTo_quiet _ h
      · exact ⟨h, by simp⟩
    · split
      · have hg := no_calls_go ({ b with tower := b.tower.apply (.call c) } : Bot) h
        refine ⟨?_, by rw [hg]; simp⟩
        unfold Bot.onGo
        split <;> exact h
      · repeat' split
        all_goals exact ⟨h, by simp⟩
  | setting kvs => exact absurd hq (by simp [NoSetting])
  | rowGen g =>
    simp only []
    split
    · split <;> exact ⟨h, by simp⟩
    · exact ⟨h, by simp⟩
  | stopTouch =>
    simp only []
    split
    · exact ⟨h, by intro o ho; simp at ho; rcases ho with rfl | rfl <;> rfl⟩
    · exact ⟨h, by simp⟩
  | userEntered _ _ => exact ⟨h, by simp⟩
  | userList _ => exact ⟨h, by simp⟩
  | assign _ _ => exact ⟨h, by simp⟩
  | userLeft _ => exact ⟨h, by simp⟩

/-- Calling is off, and nothing has been called so far beyond `cs`. -/
def Mute (cs : List (Obs K)) (w : World K) : Prop := w.bot.callComps = false ∧ callsOf w.obs = cs

theorem finishTick_mute (wt : K → K) (cs : List (Obs K)) (w : World K) (bell : Nat) (uc : Bool) (h : Mute cs w) :
    Mute cs (w.finishTick wt bell uc).1 := by
  unfold World.finishTick
  simp only []
  have hb := (foldl_applyOut_bot_crashed wt w.now (w.bot.tickEnd bell uc).2
    ({ w with bot := (w.bot.tickEnd bell uc).1 } : World K)).1
  have ho := foldl_applyOut_no_call wt w.now (w.bot.tickEnd bell uc).2
    ({ w with bot := (w.bot.tickEnd bell uc).1 } : World K) (no_calls_tick w.bot bell uc h.1)
  have hc := (tickEnd_callComps w.bot bell uc).trans h.1
  split
  · exact ⟨by dsimp only; rw [hb]; exact hc, by dsimp only; rw [ho]; exact h.2⟩
  · exact ⟨by dsimp only; rw [hb]; exact hc, by dsimp only; rw [ho]; exact h.2⟩

theorem afterInner_mute (wt : K → K) (cs : List (Obs K)) (w : World K) (bell : Nat) (uc hand : Bool) (d : K) (js : Bool)
    (h : Mute cs w) : Mute cs (w.afterInner wt bell uc hand d js).1 := by
  unfold World.afterInner
  split
  · split
    · simp only []
      split
      · exact finishTick_mute wt cs _ bell uc h
      · exact h
    · exact finishTick_mute wt cs _ bell uc h
  · exact finishTick_mute wt cs w bell uc h

theorem mainStep_mute (wt : K → K) (cs : List (Obs K)) (w : World K) (h : Mute cs w) : Mute cs (w.mainStep wt).1 := by
  unfold World.mainStep
  split
  · exact h
  · split
    · split
      · split
        · simp only []
          obtain ⟨hc, hq⟩ := lookTo_quiet w.bot h.1
          split
          · refine ⟨?_, ?_⟩
            · dsimp only; rw [(foldl_applyOut_bot_crashed wt _ _ _).1]; exact hc
            · dsimp only; rw [foldl_applyOut_no_call wt _ _ _ hq]; exact h.2
          · refine ⟨?_, ?_⟩
            · dsimp only; rw [(foldl_applyOut_bot_crashed wt _ _ _).1]; exact hc
            · dsimp only; rw [foldl_applyOut_no_call wt _ _ _ hq]; exact h.2
        · exact h
      · exact h
    · exact h
  · exact h
  · split
    · exact h
    · refine ⟨?_, ?_⟩
      · rw [(foldl_applyOut_bot_crashed wt _ _ _).1]; exact h.1
      · rw [foldl_applyOut_no_call wt _ _ _ (by
          intro o ho
          split at ho
          · simp at ho; rcases ho with rfl | rfl <;> rfl
          · simp at ho)]
        exact h.2
  · split <;> exact h
  · split
    · split
      · exact h
      · have hbw : ∀ bell uc, (w.beginWait bell uc w.bot.hand).1.bot = w.bot ∧
            (w.beginWait bell uc w.bot.hand).1.obs = w.obs := by
          intro bell uc
          unfold World.beginWait
          split
          · exact ⟨rfl, rfl⟩
          · simp only []
            split <;> (split <;> exact ⟨rfl, rfl⟩)
        refine ⟨?_, ?_⟩
        · dsimp only; rw [(hbw _ _).1]; exact h.1
        · dsimp only; rw [(hbw _ _).2]; exact h.2
    · refine ⟨?_, ?_⟩
      · rw [(foldl_applyOut_bot_crashed wt _ _ _).1]; exact h.1
      · rw [foldl_applyOut_no_call wt _ _ _ (by
          intro o ho
          split at ho
          · simp at ho; subst ho; rfl
          · simp at ho)]
        exact h.2
  · split
    · exact h
    · exact afterInner_mute wt cs w _ _ _ _ _ h
  · apply afterInner_mute
    split <;> exact h
  · exact afterInner_mute wt cs w _ _ _ _ _ h
  · exact h

theorem deliver_mute (wt : K → K) (cs : List (Obs K)) (w : World K) (e : Ev) (hq : NoSetting e) (h : Mute cs w) :
    Mute cs (World.deliver wt w e) := by
  cases e with
  | resume =>
    unfold World.deliver
    simp only []
    split
    · rename_i s _
      unfold World.lookToResume World.lookToRest
      simp only []
      have hin : (World.lookToInner ({ w with suspended := none } : World K) s).bot = w.bot ∧
          (World.lookToInner ({ w with suspended := none } : World K) s).obs = w.obs := by
        unfold World.lookToInner
        split
        · obtain ⟨_, h2, h3⟩ := withReg_pc_obs ({ w with suspended := none } : World K) _
          exact ⟨h3, h2⟩
        · exact ⟨rfl, rfl⟩
      generalize World.lookToInner ({ w with suspended := none } : World K) s = wi at hin
      have hcc : wi.bot.callComps = false := by rw [hin.1]; exact h.1
      have hno : ∀ o ∈ (wi.bot.armLookTo.startNextRow true).2, o.isCall = false := by
        intro o ho
        cases hc : o.isCall
        · rfl
        · have := (startNextRow_outs wi.bot.armLookTo true o ho).2 hc
          have hq' : wi.bot.armLookTo.callComps = wi.bot.callComps := rfl
          rw [hq', hcc] at this
          cases this.1
      have hc2 : (wi.bot.armLookTo.startNextRow true).1.callComps = false :=
        (startNextRow_callComps _ true).trans hcc
      split
      · refine ⟨?_, ?_⟩
        · dsimp only; rw [(foldl_applyOut_bot_crashed wt _ _ _).1]; exact hc2
        · dsimp only; rw [foldl_applyOut_no_call wt _ _ _ hno]; dsimp only; rw [hin.2]; exact h.2
      · refine ⟨?_, ?_⟩
        · rw [(foldl_applyOut_bot_crashed wt _ _ _).1]; exact hc2
        · rw [foldl_applyOut_no_call wt _ _ _ hno]; dsimp only; rw [hin.2]; exact h.2
    · exact h
  | msg m =>
    unfold World.deliver
    simp only []
    split
    · unfold World.lookToBegin
      exact ⟨h.1, by simp [callsOf, Out.isCall]; exact h.2⟩
    · unfold World.deliverMsg
      simp only []
      obtain ⟨hc, hno⟩ := onMsg_quiet_calls w.bot m hq h.1
      split
      · refine ⟨?_, ?_⟩
        · dsimp only; rw [(foldl_applyOut_bot_crashed wt _ _ _).1]; exact hc
        · dsimp only; rw [foldl_applyOut_no_call wt _ _ _ hno]; exact h.2
      · refine ⟨?_, ?_⟩
        · rw [(foldl_applyOut_bot_crashed wt _ _ _).1]; exact hc
        · rw [foldl_applyOut_no_call wt _ _ _ hno]; exact h.2

theorem sleep_go_mute (wt : K → K) (limit : K) (cs : List (Obs K)) :
    ∀ (events : List (K × Ev)) (w : World K), (∀ ev ∈ events, NoSetting ev.2) → Mute cs w →
      Mute cs (World.sleep.go wt limit w events).1 ∧ (∀ ev ∈ (World.sleep.go wt limit w events).2, NoSetting ev.2) := by
  intro events
  induction events with
  | nil => intro w _ h; exact ⟨h, by intro ev hev; cases hev⟩
  | cons ev rest ih =>
    intro w hq h
    obtain ⟨t, m⟩ := ev
    unfold World.sleep.go
    split
    · apply ih _ (fun ev' h' => hq ev' (by simp [h']))
      apply deliver_mute wt cs _ m (hq (t, m) (by simp))
      split
      · exact h
      · exact h
    · exact ⟨h, hq⟩

theorem sleep_mute (wt : K → K) (endTime : K) (cs : List (Obs K)) (w : World K) (d : K) (events : List (K × Ev))
    (hq : ∀ ev ∈ events, NoSetting ev.2) (h : Mute cs w) :
    Mute cs (World.sleep wt endTime w d events).1 ∧ (∀ ev ∈ (World.sleep wt endTime w d events).2.1, NoSetting ev.2) := by
  unfold World.sleep
  simp only []
  split
  · exact sleep_go_mute wt endTime cs events w hq h
  · obtain ⟨h1, h2⟩ := sleep_go_mute wt (w.now + d) cs events w hq h
    exact ⟨⟨h1.1, h1.2⟩, h2⟩

/-- **No calls at all when told not to, however long, whatever arrives**: with calling off (`--no-calls`, or the
setting), whatever composition is rung, whenever Go comes, whatever else happens - as long as nobody touches the
settings - `World.run`, for any fuel, adds no `c_call` to what has been emitted. -/
theorem no_calls_when_told_not_to (wt : K → K) (endTime : K) :
    ∀ (fuel : Nat) (w : World K) (events : List (K × Ev)), w.bot.callComps = false → (∀ ev ∈ events, NoSetting ev.2) →
      callsOf (World.run wt endTime fuel w events).1.obs = callsOf w.obs := by
  intro fuel w events hc hq
  suffices h : ∀ (fuel : Nat) (w' : World K) (events : List (K × Ev)), Mute (callsOf w.obs) w' →
      (∀ ev ∈ events, NoSetting ev.2) → Mute (callsOf w.obs) (World.run wt endTime fuel w' events).1 from
    (h fuel w events ⟨hc, rfl⟩ hq).2
  intro fuel
  induction fuel with
  | zero => intro w' events h _; exact h
  | succ fuel ih =>
    intro w' events h hq
    have hm := mainStep_mute wt _ w' h
    unfold World.run
    split
    · rename_i w1 heq; rw [heq] at hm; exact hm
    · rename_i w1 heq; rw [heq] at hm; exact ih w1 events hm hq
    · rename_i w1 d heq
      rw [heq] at hm
      obtain ⟨hsl, hsq⟩ := sleep_mute wt endTime _ w1 d events hq hm
      simp only []
      split
      · exact hsl
      · exact ih _ _ hsl hsq

end NoCalls

end Wheatley.C16
