/-
C05 — every touch starts afresh, whatever happened before.
-/
import Wheatley.Lemmas.Gen
import Wheatley.Lemmas.Ctl
import Wheatley.Lemmas.FreshTouch
namespace Wheatley.C05

/-- `reset()` yields the freshly constructed generator, from **every** state (reachable or not):
flags, position, current row and the partly generated multi-change call are all forgotten. -/
theorem reset_is_init (g : Gen) : g.reset = Gen.init g.kind g.customStart g.startRow :=
  Gen.reset_eq_init g

/-- Whatever the first touch did (`ops₁`: any calls, any number of rows, stopping anywhere, e.g. in
the middle of a multi-change Single), the rows of the touch that follows the reset are exactly the
rows a freshly constructed generator produces for the same operations `ops₂`. -/
theorem second_touch_fresh (kind : GenKind) (cs : Option Row) (sr : Row) (ops₁ ops₂ : List GenOp) :
    (((Gen.init kind cs sr).runOps ops₁).1.reset.runOps ops₂).2 =
      ((Gen.init kind cs sr).runOps ops₂).2 := by
  have h := Gen.runOps_cfg ops₁ (Gen.init kind cs sr)
  rw [reset_is_init]
  simp only [Gen.cfg, Prod.mk.injEq] at h
  obtain ⟨h1, h2, h3⟩ := h
  rw [h1, h2, h3]
  rfl

/-- The same from an arbitrary (even unreachable) state with the same configuration. -/
theorem touch_after_reset_fresh (g : Gen) (ops : List GenOp) :
    (g.reset.runOps ops).2 = ((Gen.init g.kind g.customStart g.startRow).runOps ops).2 := by
  rw [reset_is_init]

/-- **Every start of the method resets the generator** — the first Go, a second Go after That's all or
Rounds, an automatic up-down-in start: whenever the control machine starts the method at a row
boundary, the row is generated from `reset` of the current generator, i.e. (by `reset_is_init`) from a
freshly constructed one. -/
theorem method_start_resets (b : Bot) (f : Bool) (c : Ctl) (h : ctlStep b.ctl (b.ctlIn f) = .ok c true) :
    b.startNextRow f =
      Bot.snrFinish ((b.snrPrep.resetGen).withCtl c)
        (if !(b.checkNumberOfBells b.gen) then b.makeCalls ["Stand"] else []) ∧
    (b.snrPrep.resetGen).gen = Gen.init b.gen.kind b.gen.customStart b.gen.startRow := by
  constructor
  · unfold Bot.startNextRow
    rw [h]
    simp
  · have : b.snrPrep.gen = b.gen := by unfold Bot.snrPrep; split <;> rfl
    simp [Bot.resetGen, this, reset_is_init]

/-! Non-vacuity / regression witness: Grandsire Triples, 12 rows, Single, 1 row (the 2-change Single
`3.123` is now half generated), reset.  The next touch starts with the plain first change `3`. -/
example : ∃ g, mkGrandsire 7 none = some g ∧
    let ops₁ := (List.range 12).map (fun i => GenOp.next (i % 2 == 0)) ++ [.single, .next true]
    (g.runOps ops₁).1.callPN ≠ [] ∧
    evRows ((g.runOps ops₁).1.reset.runOps [.next true]).2 = [[2, 1, 3, 5, 4, 7, 6]] := by
  refine ⟨(mkGrandsire 7 none).get (by decide), by simp, ?_⟩
  decide

/-- **The known finding, as a theorem about the model of `start_next_row`** (`C05-pending-thats-all-cancels-go`): when
the method is due to start at a row end at which a That's all countdown has reached zero - the That's all was called
before the start, in rows that were not rounds - the control state that results rings rounds: the start is cancelled
by a call made before it.  (The countdown can only be pending there when the rows before the start were not rounds:
on rounds it is absorbed at the next row end.  The real code's witness is in `known_findings.json`.) -/
theorem pending_thats_all_cancels_start (c : Ctl) (i : CtlIn) (hs : startsNow c = true) (h0 : c.rowsLeft = some 0) :
    (ctlNext c i).ringingRounds = true ∧ (ctlNext c i).ringingOpening = false ∧ (ctlNext c i).rowsLeft = none := by
  simp [ctlNext, hs, h0]

/-! ### The whole system -/
section System
open FreshTouch MethodRows
variable {K : Type} [Num K]

/-- A Bot that is not ringing satisfies the invariant whatever its generator holds - a pending Bob, half of a
multi-change Single, any position, any row, even a state no run could produce. -/
theorem idle_is_fresh (b : Bot) (h : b.isRinging = false) : Fresh b := by
  intro hm; rw [hm.1] at h; cases h

/-- **Every touch starts afresh - in every run.**  Start from any world whose Bot is not ringing, its generator in
*any* state.  Then in every state of every run - any events at any times: Look To, Go, Bobs and Singles before,
during and after the rounds, That's all, Rounds, Stand, Stop Touch, selections, settings, size changes, as many
touches as you like - whenever the method is being rung the generator is in a state that a freshly constructed
generator reaches by the row requests, Bobs and Singles made of it alone.  Nothing of what was rung, called or left
half-finished before the method started is in it. -/
theorem every_touch_starts_afresh (wt : K → K) (endTime : K) (fuel : Nat) (w : World K) (events : List (K × Ev))
    (h : Fresh w.bot) : Fresh (World.run wt endTime fuel w events).1.bot :=
  FreshTouch.botInvariant.run wt endTime fuel w events (fun _ _ => trivial) h

theorem method_generator_is_a_fresh_one (wt : K → K) (endTime : K) (fuel : Nat) (w : World K)
    (events : List (K × Ev)) (hidle : w.bot.isRinging = false)
    (hm : InMethod (World.run wt endTime fuel w events).1.bot) :
    ∃ k cs sr ops, (∀ op ∈ ops, op ≠ GenOp.reset) ∧
      (World.run wt endTime fuel w events).1.bot.gen = applyAll (Gen.init k cs sr) ops :=
  (every_touch_starts_afresh wt endTime fuel w events (idle_is_fresh w.bot hidle) hm).ops

/-- Non-vacuity: a Bot in the method whose generator has just been reset and asked for one row is `Fresh`, and in
the method. -/
example : ∃ b : Bot, InMethod b ∧ Fresh b := by
  refine ⟨{ Bot.init (Gen.init (.plainHunt 4) none [1, 2, 3, 4]) false false true none none with
              isRinging := true, ringingOpening := false, ringingRounds := false }, ⟨rfl, rfl, rfl⟩, ?_⟩
  intro _
  exact Reach.init _ _ _

end System

end Wheatley.C05
