/-
C03 — every change is a legal change: neighbours swap, nobody jumps, covers stay.
-/
import Wheatley.Lemmas.Gen
import Wheatley.Lemmas.Places
import Wheatley.Lemmas.Covers
import Wheatley.Model.World
namespace Wheatley.C03

/-- `r'` is obtained from `r` by a legal change of the given stage. -/
structure Legal (stage : Nat) (r r' : Row) : Prop where
  length : r'.length = r.length
  /-- each position of the new row holds the bell that was there or an adjacent one -/
  from_adjacent : ∀ k, r'[k]? = r[k]? ∨ r'[k]? = r[k+1]? ∨ (0 < k ∧ r'[k]? = r[k-1]?)
  /-- each bell of the old row is found in the same or an adjacent position of the new row:
      no bell moves more than one place -/
  to_adjacent : ∀ k, r[k]? = r'[k]? ∨ r[k]? = r'[k+1]? ∨ (0 < k ∧ r[k]? = r'[k-1]?)
  /-- bells above the stage (the covers) do not move -/
  covers : r'.drop stage = r.drop stage

/-- Every `(stage, place set, row)` whatsoever gives a legal change. -/
theorem permute_legal (stage : Nat) (row : Row) (places : Places) :
    Legal stage row (permute stage row places) where
  length := permute_length stage row places
  from_adjacent := permute_adjacent stage row places
  to_adjacent := by
    intro k
    have h := permute_adjacent stage (permute stage row places) places k
    rw [permute_involutive] at h
    exact h
  covers := permute_drop stage row places

/-- Swaps are their own inverse: the pairs that cross are disjoint. -/
theorem permute_twice (stage : Nat) (row : Row) (places : Places) :
    permute stage (permute stage row places) places = row :=
  permute_involutive stage row places

/-- Every row produced by a notation- or rule-driven generator — plain, Bob, Single, Dixon's rules —
is a legal change of the row before it (the generator's stored row, which `reset` sets back to the
start row).  Together with `next_keeps` (the produced row is stored) this is the statement for all
consecutive rows of every history. -/
theorem gen_step_legal (g : Gen) (hp : g.Permuting) (hand : Bool) (g' : Gen) (r : Row)
    (calls : List String) (h : g.next hand = .ok g' r calls) :
    Legal g.stage g.row r ∧ g'.row = r ∧ g'.kind = g.kind := by
  obtain ⟨places, rfl⟩ := Gen.next_permuting g hp hand g' r calls h
  have hk := Gen.next_keeps g hand g' _ calls h
  exact ⟨permute_legal g.stage g.row places, hk.1, hk.2.2⟩

/-- Along any history every row keeps the start row's length and its cover bells. -/
theorem gen_rows_covers (g : Gen) (hp : g.Permuting) (hrow : g.row = g.startRow) (ops : List GenOp) :
    ∀ r ∈ evRows (g.runOps ops).2,
      r.length = g.startRow.length ∧ r.drop g.stage = g.startRow.drop g.stage :=
  Gen.runOps_inv (fun r => r.length = g.startRow.length ∧ r.drop g.stage = g.startRow.drop g.stage)
    ops g hp
    (fun r places h => ⟨(permute_length _ _ _).trans h.1, (permute_drop _ _ _).trans h.2⟩)
    ⟨rfl, rfl⟩ (by rw [hrow]; exact ⟨rfl, rfl⟩)

/-- **Every place named in the notation is made** when the change is parity-consistent (before every
named place an even number of places are unnamed, counting from place 1 — or from place 2 when the
lowest named place is even and the lead is implied): the bell in that place stays. -/
theorem named_places_made (stage : Nat) (row : Row) (P : Places)
    (hc : Consistent stage P (if implicitLead P then 2 else 1)) (p : Nat) (hp : p ∈ P) (h1 : 1 ≤ p)
    (hps : p ≤ stage) : (permute stage row P)[p - 1]? = row[p - 1]? :=
  permute_makes_place stage row P hc p hp h1 hps

/-- **… and the places that are not named swap in pairs**: in a parity-consistent change the bell in an
unnamed place `p < stage` with an even number of unnamed places before it, and the bell in place
`p + 1`, change places.  With `named_places_made` this determines the whole row: `permute` *is* the
change the notation denotes. -/
theorem unnamed_places_swap (stage : Nat) (row : Row) (P : Places)
    (hc : Consistent stage P (if implicitLead P then 2 else 1)) (p : Nat) (hp : p ∉ P)
    (h1 : (if implicitLead P then 2 else 1) ≤ p) (hps : p < stage) (hlen : p < row.length)
    (hev : unmade P (if implicitLead P then 2 else 1) p % 2 = 0) :
    (permute stage row P)[p - 1]? = row[p]? ∧ (permute stage row P)[p]? = row[p - 1]? :=
  permute_swaps_unnamed stage row P hc p hp h1 hps hlen hev

/-- Non-vacuity: `14` on six swaps 2-3 and 5-6. -/
example : permute 6 [1, 2, 3, 4, 5, 6] [1, 4] = [1, 3, 2, 4, 6, 5] := by decide

/-- The hypothesis is decidable on concrete notations and satisfied by the usual ones, e.g. `14` and
`1234` on six (and not by the inconsistent `13`). -/
example : Consistent 6 [1, 4] 1 ∧ Consistent 6 [1, 2, 3, 4] 1 ∧ ¬ Consistent 6 [1, 3] 1 := by
  refine ⟨?_, ?_, ?_⟩
  · intro q hq _ _; simp at hq; rcases hq with rfl | rfl <;> decide
  · intro q hq _ _; simp at hq; rcases hq with rfl | rfl | rfl | rfl <;> decide
  · intro h; have := h 3 (by simp) (by omega) (by omega); revert this; decide

/-! Non-vacuity: a Dixon's Bob Minor step with a Single pending is an instance. -/
example : ∃ g g' r c, mkDixon 6 none = some g ∧ g.Permuting ∧
    g.setSingle.next false = .ok g' r c ∧ r = [1, 2, 3, 4, 6, 5] := by
  refine ⟨(mkDixon 6 none).get (by decide), _, _, _, by simp, by decide, rfl, by decide⟩


/-! ### System level: the covers, in every state of every run -/

section System
variable {K : Type} [Num K]
open MethodRows

/-- **Bells above the method ring as covers in the same last places of every row.**  In a tower that keeps its `N`
bells (`Complete.Fixed N`; selections total, `Sel`), in every state of every run, while the method is being rung: the
row being rung is the generator's current row followed by the opening row's tail - so everything behind the
generator's row is, bell for bell and place for place, what the opening row put there, row after row, whatever is
called, selected, assigned or set meanwhile.  (With `C01.every_row_is_complete` the whole is a complete row; with
`gen_step_legal` the front part moves by adjacent swaps only.) -/
theorem covers_ring_behind_the_method (N : Nat) (wt : K → K) (endTime : K) (fuel : Nat) (w : World K)
    (events : List (K × Ev)) (hs : ∀ ev ∈ events, Covers.E N ev.2) (h : Covers.J N w.bot) :
    InMethod (World.run wt endTime fuel w events).1.bot →
      (World.run wt endTime fuel w events).1.bot.row =
        (World.run wt endTime fuel w events).1.bot.gen.row ++
          (World.run wt endTime fuel w events).1.bot.openingRow.drop (World.run wt endTime fuel w events).1.bot.gen.row.length :=
  ((Covers.botInvariant N).run wt endTime fuel w events hs h).2.2

/-- ... in particular the part of the row behind the generator's row never changes during the method. -/
theorem covers_are_the_opening_rows (N : Nat) (wt : K → K) (endTime : K) (fuel : Nat) (w : World K)
    (events : List (K × Ev)) (hs : ∀ ev ∈ events, Covers.E N ev.2) (h : Covers.J N w.bot)
    (hm : InMethod (World.run wt endTime fuel w events).1.bot) :
    (World.run wt endTime fuel w events).1.bot.row.drop (World.run wt endTime fuel w events).1.bot.gen.row.length =
      (World.run wt endTime fuel w events).1.bot.openingRow.drop (World.run wt endTime fuel w events).1.bot.gen.row.length := by
  rw [covers_ring_behind_the_method N wt endTime fuel w events hs h hm]
  simp

end System

end Wheatley.C03
