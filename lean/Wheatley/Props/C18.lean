/-
C18 — command-line values parse to what the syntax says or fail with their own error.

`Chars` abstracts Python's Unicode tables (decimal value of a character, white space).  The theorems
hold for every interpretation that satisfies `Sane` — what Python guarantees: a decimal digit is not
white space, an underscore or a sign.
-/
import Wheatley.Model.Parse
import Wheatley.Lemmas.StartRow
import Wheatley.Lemmas.RoundTrip
import Wheatley.Lemmas.Gen
import Wheatley.Lemmas.Cli
namespace Wheatley.C18
open Wheatley.Parse

structure Sane (c : Chars) : Prop where
  digit_not_space : ∀ ch d, c.dv ch = some d → c.sp ch = false
  digit_not_underscore : c.dv '_' = none
  digit_not_minus : c.dv '-' = none
  digit_not_plus : c.dv '+' = none

/-! ### Totality: no parser ever raises anything but its own error -/

theorem pealSpeed_total (c : Chars) (s : List Char) : (pealSpeed c s).isCrash = false := by
  unfold pealSpeed
  simp only []
  repeat' split
  all_goals rfl

theorem callSegment_total (c : Chars) (seg : List Char) : (callSegment c seg).isCrash = false := by
  unfold callSegment
  simp only []
  repeat' split
  all_goals first | rfl | (rename_i h; simp_all [PRes.isCrash]) | simp_all [PRes.isCrash]

theorem callDef_total (c : Chars) (s : List Char) : (callDef c s).isCrash = false := by
  unfold callDef
  generalize splitOn '/' s = segs
  generalize ([] : List (Int × List Char)) = acc
  induction segs generalizing acc with
  | nil => rfl
  | cons seg rest ih =>
    unfold callDef.go
    have := callSegment_total c seg
    split
    · split
      · rfl
      · exact ih _
    · rfl
    · rename_i e h; rw [h] at this; simp [PRes.isCrash] at this

theorem startRow_total (s : List Char) : (startRow s).isCrash = false := by
  unfold startRow
  split
  · rfl
  · simp only []
    rename_i bells hb
    clear hb
    generalize (List.map (· + 1) (List.range (List.foldl max 0 bells))) = rem
    induction bells generalizing rem with
    | nil => unfold startRow.go; split <;> rfl
    | cons b rest ih =>
      unfold startRow.go
      split
      · exact ih (rem.erase b)
      · rfl

theorem compArg_go_total (c : Chars) (id : Int) :
    ∀ (qs : List (List Char)) (key : Option (List Char)) (sub : Option Int),
      (compArg.go c id qs key sub).isCrash = false := by
  intro qs
  induction qs with
  | nil => intro key sub; rfl
  | cons q rest ih =>
    intro key sub
    unfold compArg.go
    split
    · simp only []
      split
      · split
        · rfl
        · exact ih _ _
      · exact ih _ _
    · exact ih _ _

theorem compArg_total (c : Chars) (parsed : Option (List Char × List Char)) :
    (compArg c parsed).isCrash = false := by
  unfold compArg
  split
  · rfl
  · split
    · split
      · rfl
      · split
        · split
          · rfl
          · split
            · rfl
            · exact compArg_go_total c _ _ _ _
        · rfl
    · rfl

/-- All-decimal, non-empty strings are accepted by `int()`. -/
theorem digitsVal_decimal (c : Chars) (hs : Sane c) :
    ∀ (s : List Char) (acc : Nat) (prev : Bool), (∀ ch ∈ s, (c.dv ch).isSome) → (s ≠ [] ∨ prev = true) →
      (digitsVal c s acc prev).isSome := by
  intro s
  induction s with
  | nil => intro acc prev _ h; rcases h with h | h <;> simp_all [digitsVal]
  | cons ch rest ih =>
    intro acc prev hall _
    have hch := hall ch (by simp)
    unfold digitsVal
    have hne : ch ≠ '_' := by
      intro e; subst e; rw [hs.digit_not_underscore] at hch; simp at hch
    simp only [hne, if_false]
    cases hd : c.dv ch with
    | none => rw [hd] at hch; simp at hch
    | some d => exact ih _ true (fun x hx => hall x (by simp [hx])) (Or.inr rfl)

theorem strip_decimal (c : Chars) (hs : Sane c) (s : List Char) (hall : ∀ ch ∈ s, (c.dv ch).isSome) :
    strip c s = s := by
  have hnsp : ∀ ch ∈ s, c.sp ch = false := by
    intro ch h
    cases hd : c.dv ch with
    | none => have := hall ch h; rw [hd] at this; simp at this
    | some d => exact hs.digit_not_space ch d hd
  unfold strip
  have h1 : s.dropWhile c.sp = s := by
    cases s with
    | nil => rfl
    | cons a r => simp [List.dropWhile, hnsp a (by simp)]
  rw [h1]
  have h2 : s.reverse.dropWhile c.sp = s.reverse := by
    cases hr : s.reverse with
    | nil => rfl
    | cons a r =>
      have : a ∈ s := by
        have : a ∈ s.reverse := by rw [hr]; simp
        simpa using this
      simp [List.dropWhile, hnsp a this]
  rw [h2, List.reverse_reverse]

theorem pyInt_decimal (c : Chars) (hs : Sane c) (s : List Char) (h : isDecimal c s = true) :
    (pyInt c s).isSome := by
  unfold isDecimal at h
  simp only [Bool.and_eq_true, Bool.not_eq_true', List.all_eq_true] at h
  obtain ⟨hne, hall⟩ := h
  have hne' : s ≠ [] := by intro e; subst e; simp at hne
  unfold pyInt
  rw [strip_decimal c hs s hall]
  have hd := digitsVal_decimal c hs s 0 false hall (Or.inl hne')
  cases s with
  | nil => exact absurd rfl hne'
  | cons a r =>
    have ha := hall a (by simp)
    have h1 : a ≠ '-' := by intro e; subst e; rw [hs.digit_not_minus] at ha; simp at ha
    have h2 : a ≠ '+' := by intro e; subst e; rw [hs.digit_not_plus] at ha; simp at ha
    cases hq : digitsVal c (a :: r) 0 false with
    | none => rw [hq] at hd; simp at hd
    | some n =>
      split
      · rename_i r' heq; injection heq with e1 _; exact absurd e1 h1
      · rename_i r' heq; injection heq with e1 _; exact absurd e1 h2
      · simp [hq]

/-- **`parse_place_notation` is total**: after the `isdecimal()` test `int()` cannot fail, so a bare
`ValueError` is impossible. -/
theorem placeNotation_total (c : Chars) (hs : Sane c) (s : List Char) : (placeNotation c s).isCrash = false := by
  unfold placeNotation
  split
  · rename_i stagePart pn _
    by_cases hd : isDecimal c stagePart = true
    · simp only [hd, Bool.not_true, Bool.false_eq_true, if_false]
      have := pyInt_decimal c hs stagePart hd
      cases hq : pyInt c stagePart with
      | none => rw [hq] at this; simp at this
      | some st => simp only []; repeat' split
                   all_goals rfl
    · simp only [hd, Bool.not_false, if_true]; rfl
  · rfl

/-! ### Accepted values can be rung -/

theorem validPiece_converts (p : List Char) (h : validPiece upperAscii p = true) : (convertPiece p).isSome := by
  unfold validPiece at h
  unfold convertPiece
  by_cases hp : p = ['-']
  · simp [hp]
  · simp only [hp, if_false]
    have hall : ∀ y ∈ p, bellNames.contains (upperAscii y) = true := by
      simpa [hp] using h
    unfold bellsOfString
    have : ∀ (l : List Char), (∀ y ∈ l, bellNames.contains y = true) → (l.mapM bellOfChar).isSome := by
      intro l
      induction l with
      | nil => intro _; simp
      | cons a r ih =>
        intro hl
        have ha : bellNames.contains a = true := hl a (by simp)
        have : (bellOfChar a).isSome := by
          unfold bellOfChar
          have hm : a ∈ bellNames := by simpa using ha
          cases hq : bellNames.idxOf? a with
          | none =>
            have := List.idxOf?_eq_none_iff.mp hq
            exact absurd hm this
          | some i => simp
        have ih' := ih (fun y hy => hl y (by simp [hy]))
        simp only [List.mapM_cons]
        cases h1 : bellOfChar a with
        | none => rw [h1] at this; simp at this
        | some v =>
          cases h2 : r.mapM bellOfChar with
          | none => rw [h2] at ih'; simp at ih'
          | some vs => simp [h1, h2]
    apply this
    intro y hy
    simp only [List.mem_map] at hy
    obtain ⟨x, hx, rfl⟩ := hy
    exact hall x hx

theorem mapM_isSome {α β} (f : α → Option β) (l : List α) (h : ∀ a ∈ l, (f a).isSome) : (l.mapM f).isSome := by
  induction l with
  | nil => simp
  | cons a r ih =>
    have ha := h a (by simp)
    have ih' := ih (fun x hx => h x (by simp [hx]))
    simp only [List.mapM_cons]
    cases h1 : f a with
    | none => rw [h1] at ha; simp at ha
    | some v =>
      cases h2 : r.mapM f with
      | none => rw [h2] at ih'; simp at ih'
      | some vs => simp [h1, h2]

theorem validBlock_converts (s : List Char) (e : Bool) (h : validBlock upperAscii s = true) :
    (convertBlock s e).isSome := by
  unfold validBlock at h
  unfold convertBlock
  simp only []
  have := mapM_isSome convertPiece (pnPieces s)
    (fun p hp => validPiece_converts p (by simpa using (List.all_eq_true.mp h) p hp))
  cases hq : (pnPieces s).mapM convertPiece with
  | none => rw [hq] at this; simp at this
  | some conv => simp

/-- **`valid_pn` accepts only what `convert_pn` can convert.** -/
theorem valid_implies_convert (s : List Char) (h : validPN upperAscii s = true) : (convertPN s).isSome := by
  unfold validPN at h
  unfold convertPN
  by_cases hc : s.contains ',' = true
  · simp only [hc, if_true] at h ⊢
    have := mapM_isSome (convertBlock · true) (splitOn ',' s)
      (fun b hb => validBlock_converts b true (by simpa using (List.all_eq_true.mp h) b hb))
    cases hq : (splitOn ',' s).mapM (convertBlock · true) with
    | none => rw [hq] at this; simp at this
    | some bs => simp
  · simp only [hc, Bool.false_eq_true, if_false] at h ⊢
    exact validBlock_converts s false h

/-- An accepted stage is one Wheatley has bells for. -/
theorem accepted_stage_in_range (c : Chars) (s pn : List Char) (stage : Nat)
    (h : placeNotation c s = .ok (stage, pn)) : 1 ≤ stage ∧ stage ≤ 16 := by
  unfold placeNotation at h
  split at h
  · split at h
    · cases h
    · split at h
      · cases h
      · rename_i st hst
        split at h
        · cases h
        · rename_i hrange
          split at h
          · cases h
          · injection h with h
            injection h with h1 h2
            subst h1
            simp only [maxBell, Bool.or_eq_true, decide_eq_true_eq, not_or, Int.not_lt] at hrange
            have h1 := hrange.1
            have h2 : st ≤ 16 := by
              rcases Int.lt_or_le 16 st with hlt | hge
              · exact absurd (decide_eq_true (by exact_mod_cast hlt)) hrange.2
              · exact hge
            constructor <;> omega
  · cases h

/-- **Every accepted place notation can be rung**: the generator's constructor succeeds on it. -/
theorem accepted_notation_can_be_rung (c : Chars) (s pn : List Char) (stage : Nat)
    (h : placeNotation c s = .ok (stage, pn)) : (mkPN stage pn none none 0 none).isSome := by
  have hr := accepted_stage_in_range c s pn stage h
  unfold placeNotation at h
  split at h
  · rename_i stagePart pn' _
    split at h
    · cases h
    · split at h
      · cases h
      · rename_i st hst
        split at h
        · cases h
        · rename_i hrange
          split at h
          · cases h
          · rename_i hvalid
            injection h with h
            injection h with h1 h2
            subst h2
            have hv : validPN upperAscii pn' = true := by simpa using hvalid
            have hconv := valid_implies_convert pn' hv
            unfold mkPN
            have hle : ¬ maxBell < stage := by simp only [maxBell]; omega
            simp only [startingRow, hle, if_false]
            cases hq : convertPN pn' with
            | none => rw [hq] at hconv; simp at hconv
            | some mpn =>
              simp only []
              have c14 : convertPN "14".toList = some [[1, 4]] := by decide
              have c1234 : convertPN "1234".toList = some [[1, 2, 3, 4]] := by decide
              have hb : (parseCallDict mpn.length (none.getD defaultBob)).isSome := by
                unfold parseCallDict; apply mapM_isSome; intro a ha
                simp [defaultBob, Generated.defaultBob] at ha; subst ha; simp only [c14]; rfl
              have hsg : (parseCallDict mpn.length (none.getD defaultSingle)).isSome := by
                unfold parseCallDict; apply mapM_isSome; intro a ha
                simp [defaultSingle, Generated.defaultSingle] at ha; subst ha; simp only [c1234]; rfl
              cases h1 : parseCallDict mpn.length (none.getD defaultBob) with
              | none => rw [h1] at hb; simp at hb
              | some b =>
                cases h2 : parseCallDict mpn.length (none.getD defaultSingle) with
                | none => rw [h2] at hsg; simp at hsg
                | some sg => simp
  · cases h

/-- **Every accepted call definition can be rung**: each of its notations converts. -/
theorem accepted_call_converts (c : Chars) (seg pn : List Char) (loc : Int)
    (h : callSegment c seg = .ok (loc, pn)) : (convertPN pn).isSome ∧ pn ≠ [] := by
  unfold callSegment at h
  simp only [] at h
  split at h
  · rename_i loc' pn' _
    split at h
    · cases h
    · split at h
      · cases h
      · rename_i hne hvalid
        injection h with h
        injection h with h1 h2
        subst h2
        exact ⟨valid_implies_convert pn' (by simpa using hvalid), by intro e; subst e; simp at hne⟩
  · rename_i e hne; rw [h] at hne; exact absurd rfl (hne _ _)

/-! ### What is accepted can be rung, for as long as one likes -/

theorem kind_of_cfg (g g' : Gen) (h : g'.cfg = g.cfg) : g'.kind = g.kind := by
  simp only [Gen.cfg, Prod.mk.injEq] at h; exact h.1

/-- **An accepted notation can actually be rung, indefinitely and through any calls**: a generator built
from place notation never fails to produce the next row, whatever Bobs, Singles and resets come in
between (places above the stage, empty call definitions, calls defined nowhere included). -/
theorem pn_never_fails (c : PNCfg) : ∀ (ops : List GenOp) (g : Gen), g.kind = .pn c →
    ∀ ev ∈ (g.runOps ops).2, ∃ r calls, ev = GenEv.row r calls := by
  intro ops
  induction ops with
  | nil => intro g _ ev hev; simp [Gen.runOps] at hev
  | cons op ops ih =>
    intro g hk ev hev
    have hk' : (g.apply op).1.kind = .pn c := by
      rw [kind_of_cfg g _ (Gen.apply_cfg g op)]; exact hk
    unfold Gen.runOps at hev
    cases op with
    | bob => simp only [Gen.apply] at hev hk'; exact ih _ hk' ev hev
    | single => simp only [Gen.apply] at hev hk'; exact ih _ hk' ev hev
    | reset => simp only [Gen.apply] at hev hk'; exact ih _ hk' ev hev
    | next hand =>
      have hn : ∃ g' r, g.next hand = .ok g' r [] := by
        unfold Gen.next; rw [hk]; exact ⟨_, _, rfl⟩
      obtain ⟨g', r, hn⟩ := hn
      simp only [Gen.apply, hn] at hev hk'
      simp only [List.mem_cons] at hev
      rcases hev with rfl | hev
      · exact ⟨r, [], rfl⟩
      · exact ih g' hk' ev hev

/-- … in particular the generator of every accepted `--place-notation` value. -/
theorem accepted_notation_rings (c : Chars) (s pn : List Char) (stage : Nat)
    (h : placeNotation c s = .ok (stage, pn)) :
    ∃ g, mkPN stage pn none none 0 none = some g ∧
      ∀ ops, ∀ ev ∈ (g.runOps ops).2, ∃ r calls, ev = GenEv.row r calls := by
  have hs := accepted_notation_can_be_rung c s pn stage h
  obtain ⟨g, hg⟩ := Option.isSome_iff_exists.mp hs
  refine ⟨g, hg, ?_⟩
  have hk : ∃ cfg, g.kind = .pn cfg := by
    unfold mkPN at hg
    simp only [] at hg
    repeat' split at hg
    all_goals first
      | (simp only [Option.some.injEq] at hg; subst hg; exact ⟨_, rfl⟩)
      | cases hg
  obtain ⟨cfg, hk⟩ := hk
  exact fun ops => pn_never_fails cfg ops g hk

/-! ### The value of an accepted start row -/

/-- The multiset test at the heart of `parse_start_row`: crossing the bells off a list one by one
succeeds exactly when the bells are a rearrangement of that list. -/
theorem startRow_go_iff (s : List Char) (bells rem : List Nat) (n : Nat) :
    startRow.go s bells rem = .ok n ↔ bells.Perm rem ∧ n = s.length := by
  induction bells generalizing rem with
  | nil =>
    unfold startRow.go
    constructor
    · intro h
      split at h
      · rename_i he
        simp only [PRes.ok.injEq] at h
        exact ⟨by simp [List.isEmpty_iff.mp he], h.symm⟩
      · cases h
    · rintro ⟨hp, rfl⟩
      have : rem = [] := List.Perm.nil_eq hp |>.symm
      simp [this]
  | cons b rest ih =>
    unfold startRow.go
    by_cases hc : rem.contains b = true
    · rw [if_pos hc, ih]
      have hm : b ∈ rem := by simpa using hc
      constructor
      · rintro ⟨hp, hn⟩
        exact ⟨(List.Perm.cons b hp).trans (List.perm_cons_erase hm).symm, hn⟩
      · rintro ⟨hp, hn⟩
        refine ⟨?_, hn⟩
        have := hp.trans (List.perm_cons_erase hm)
        exact (List.perm_cons b).mp this
    · rw [if_neg hc]
      constructor
      · intro h; cases h
      · rintro ⟨hp, _⟩
        exfalso
        apply hc
        have : b ∈ rem := hp.subset (by simp)
        simpa using this

/-- **What `parse_start_row` accepts, exactly**: a string of bell names that is a rearrangement of
`1 … k` for its largest bell `k` (so no bell twice, none missing below the largest); the value is the
length of the string.  Everything else is its own `StartRowParseError`. -/
theorem startRow_accepts_iff (s : List Char) (n : Nat) :
    startRow s = .ok n ↔
      ∃ bells, bellsOfString s = some bells ∧ bells.Perm (rounds (bells.foldl max 0)) ∧ n = s.length := by
  unfold startRow
  cases hb : bellsOfString s with
  | none => simp
  | some bells =>
    simp only [Option.some.injEq, exists_eq_left']
    exact startRow_go_iff s bells _ n

/-! Non-vacuity: Queens on six is accepted with value 6; a row with a gap is not. -/
example : startRow "135246".toList = .ok 6 ∧ startRow "1356".toList = .own "StartRowParseError" := by
  constructor <;> rfl

/-! ### The value of a peal speed -/

/-- An interpretation of Python's Unicode tables that is right about ASCII: `0`–`9` are decimal digits
with their usual values and are not white space. -/
structure Ascii (c : Chars) : Prop where
  digit : ∀ ch : Char, ch.isDigit = true → c.dv ch = some (ch.toNat - 48)
  nospace : ∀ ch : Char, ch.isDigit = true → c.sp ch = false
  letters : c.sp 'h' = false ∧ c.sp 'm' = false

/-- The decimal numeral of `n`. -/
def numeral (n : Nat) : List Char := Nat.toDigits 10 n

theorem numeral_digits (n : Nat) : ∀ ch ∈ numeral n, ch.isDigit = true :=
  fun _ h => Nat.isDigit_of_mem_toDigits (by decide) (by decide) h

theorem numeral_ne_nil (n : Nat) : numeral n ≠ [] := Nat.toDigits_ne_nil

theorem isDigit_ne (ch : Char) (h : ch.isDigit = true) (x : Char) (hx : x.isDigit = false) : ch ≠ x := by
  intro e; subst e; rw [h] at hx; cases hx

theorem digitsVal_digits (c : Chars) (ha : Ascii c) :
    ∀ (l : List Char) (acc : Nat) (prev : Bool), (∀ ch ∈ l, ch.isDigit = true) → (l ≠ [] ∨ prev = true) →
      digitsVal c l acc prev = some (Nat.ofDigitChars 10 l acc) := by
  intro l
  induction l with
  | nil =>
    intro acc prev _ h
    rcases h with h | h
    · exact absurd rfl h
    · simp [digitsVal, h]
  | cons ch rest ih =>
    intro acc prev hd _
    have hch : ch.isDigit = true := hd ch (by simp)
    have hne : ch ≠ '_' := isDigit_ne ch hch '_' (by decide)
    unfold digitsVal
    rw [if_neg hne, ha.digit ch hch]
    simp only []
    rw [ih _ true (fun x hx => hd x (by simp [hx])) (Or.inr rfl), Nat.ofDigitChars_cons]
    congr 2
    show acc * 10 + (ch.toNat - 48) = 10 * acc + (ch.toNat - '0'.toNat)
    have : '0'.toNat = 48 := by decide
    rw [this]; omega

theorem strip_digits (c : Chars) (ha : Ascii c) (l : List Char) (hd : ∀ ch ∈ l, ch.isDigit = true) :
    strip c l = l := by
  have key : ∀ m : List Char, (∀ ch ∈ m, ch.isDigit = true) → m.dropWhile c.sp = m := by
    intro m hm
    cases m with
    | nil => rfl
    | cons x xs => simp [List.dropWhile_cons, ha.nospace x (hm x (by simp))]
  unfold strip
  rw [key l hd, key l.reverse (fun ch h => hd ch (by simpa using h)), List.reverse_reverse]

/-- `int()` of a decimal numeral is the number. -/
theorem pyInt_numeral (c : Chars) (ha : Ascii c) (n : Nat) : pyInt c (numeral n) = some (n : Int) := by
  unfold pyInt
  rw [strip_digits c ha _ (numeral_digits n)]
  have hv := digitsVal_digits c ha (numeral n) 0 false (numeral_digits n) (Or.inl (numeral_ne_nil n))
  have hval : Nat.ofDigitChars 10 (numeral n) 0 = n := Nat.ofDigitChars_ten_toDigits
  cases hl : numeral n with
  | nil => exact absurd hl (numeral_ne_nil n)
  | cons x xs =>
    have hx : x.isDigit = true := numeral_digits n x (by rw [hl]; simp)
    have h1 : x ≠ '-' := isDigit_ne x hx '-' (by decide)
    have h2 : x ≠ '+' := isDigit_ne x hx '+' (by decide)
    rw [hl] at hv
    split
    · rename_i r heq; simp at heq; exact absurd heq.1 h1
    · rename_i r heq; simp at heq; exact absurd heq.1 h2
    · rw [hv, ← hl, hval]; rfl

theorem strip_id (c : Chars) (l : List Char) (h : ∀ ch ∈ l, c.sp ch = false) : strip c l = l := by
  have key : ∀ m : List Char, (∀ ch ∈ m, c.sp ch = false) → m.dropWhile c.sp = m := by
    intro m hm
    cases m with
    | nil => rfl
    | cons x xs => simp [List.dropWhile_cons, hm x (by simp)]
  unfold strip
  rw [key l h, key l.reverse (fun ch hc => h ch (by simpa using hc)), List.reverse_reverse]

theorem numeral_nospace (c : Chars) (ha : Ascii c) (n : Nat) : ∀ ch ∈ numeral n, c.sp ch = false :=
  fun ch h => ha.nospace ch (numeral_digits n ch h)

theorem numeral_no (n : Nat) (x : Char) (hx : x.isDigit = false) : x ∉ numeral n :=
  fun h => by have := numeral_digits n x h; rw [this] at hx; cases hx

theorem endsWith_numeral (n : Nat) : endsWith 'm' (numeral n) = false := by
  unfold endsWith
  cases h : (numeral n).getLast? with
  | none => rfl
  | some y =>
    have hy : y ∈ numeral n := List.mem_of_getLast? h
    have : y ≠ 'm' := isDigit_ne y (numeral_digits n y hy) 'm' (by decide)
    simp [this]

theorem endsWith_snoc (l : List Char) : endsWith 'm' (l ++ ['m']) = true := by
  simp [endsWith]

/-- The five documented ways of writing a peal speed (`178`, `178m`, `2h58`, `2h58m`, `3h`). -/
inductive SpeedText where
  | minutes (m : Nat) (suffix : Bool)
  | hoursMinutes (h m : Nat) (suffix : Bool)
  | hours (h : Nat)

def SpeedText.text : SpeedText → List Char
  | .minutes m sfx => numeral m ++ (if sfx then ['m'] else [])
  | .hoursMinutes h m sfx => numeral h ++ 'h' :: (numeral m ++ (if sfx then ['m'] else []))
  | .hours h => numeral h ++ ['h']

def SpeedText.value : SpeedText → Int
  | .minutes m _ => m
  | .hoursMinutes h m _ => (h : Int) * 60 + m
  | .hours h => (h : Int) * 60

def SpeedText.WF : SpeedText → Prop
  | .hoursMinutes _ m _ => m ≤ 59
  | _ => True

/-- **The value of a peal speed**: each documented form is converted to the number of minutes it says. -/
theorem pealSpeed_value (c : Chars) (ha : Ascii c) (t : SpeedText) (hw : t.WF) :
    pealSpeed c t.text = .ok t.value := by
  have hm' : c.sp 'm' = false := ha.letters.2
  have hh' : c.sp 'h' = false := ha.letters.1
  cases t with
  | minutes m sfx =>
    have hs : strip c (SpeedText.minutes m sfx).text = (SpeedText.minutes m sfx).text := by
      apply strip_id
      intro ch hch
      simp only [SpeedText.text, List.mem_append] at hch
      rcases hch with h | h
      · exact numeral_nospace c ha m ch h
      · cases sfx <;> simp at h; subst h; exact hm'
    unfold pealSpeed
    simp only [hs]
    have hs2 : (if endsWith 'm' (SpeedText.minutes m sfx).text then (SpeedText.minutes m sfx).text.dropLast
        else (SpeedText.minutes m sfx).text) = numeral m := by
      cases sfx
      · simp [SpeedText.text, endsWith_numeral]
      · simp [SpeedText.text, endsWith_snoc]
    rw [hs2]
    have hc : (numeral m).contains 'h' = false := by
      have := numeral_no m 'h' (by decide); simpa using this
    simp only [hc, Bool.false_eq_true, if_false, pyInt_numeral c ha m]
    simp [SpeedText.value]
  | hours h =>
    have hs : strip c (SpeedText.hours h).text = (SpeedText.hours h).text := by
      apply strip_id
      intro ch hch
      simp only [SpeedText.text, List.mem_append, List.mem_singleton] at hch
      rcases hch with hx | hx
      · exact numeral_nospace c ha h ch hx
      · subst hx; exact hh'
    unfold pealSpeed
    simp only [hs]
    have he : endsWith 'm' (SpeedText.hours h).text = false := by simp [SpeedText.text, endsWith]
    simp only [he, Bool.false_eq_true, if_false]
    have hc : (SpeedText.hours h).text.contains 'h' = true := by simp [SpeedText.text]
    simp only [hc, if_true]
    have hsp : splitOn 'h' (SpeedText.hours h).text = [numeral h, []] := by
      show splitOn 'h' (numeral h ++ 'h' :: []) = _
      rw [RoundTrip.splitOn_append 'h' _ _ (numeral_no h 'h' (by decide))]
      rfl
    simp only [hsp, strip_id c _ (numeral_nospace c ha h), pyInt_numeral c ha h]
    simp [strip, SpeedText.value]
  | hoursMinutes h m sfx =>
    have hm59 : m ≤ 59 := hw
    have hs : strip c (SpeedText.hoursMinutes h m sfx).text = (SpeedText.hoursMinutes h m sfx).text := by
      apply strip_id
      intro ch hch
      simp only [SpeedText.text, List.mem_append, List.mem_cons] at hch
      rcases hch with hx | hx | hx | hx
      · exact numeral_nospace c ha h ch hx
      · subst hx; exact hh'
      · exact numeral_nospace c ha m ch hx
      · cases sfx <;> simp at hx; subst hx; exact hm'
    unfold pealSpeed
    simp only [hs]
    have hs2 : (if endsWith 'm' (SpeedText.hoursMinutes h m sfx).text then (SpeedText.hoursMinutes h m sfx).text.dropLast
        else (SpeedText.hoursMinutes h m sfx).text) = numeral h ++ 'h' :: numeral m := by
      cases sfx
      · have : endsWith 'm' (numeral h ++ 'h' :: numeral m) = false := by
          have hne := numeral_ne_nil m
          have hy : ((numeral m).getLast hne).isDigit = true := numeral_digits m _ (List.getLast_mem hne)
          have hym : (numeral m).getLast hne ≠ 'm' := isDigit_ne _ hy 'm' (by decide)
          have e2 : numeral h ++ 'h' :: numeral m =
              (numeral h ++ 'h' :: (numeral m).dropLast) ++ [(numeral m).getLast hne] := by
            conv => lhs; rw [← List.dropLast_concat_getLast hne]
            simp
          unfold endsWith
          rw [e2, List.getLast?_concat]
          simp [hym]
        simp [SpeedText.text, this]
      · have e : (SpeedText.hoursMinutes h m true).text = (numeral h ++ 'h' :: numeral m) ++ ['m'] := by
          simp [SpeedText.text]
        rw [e, endsWith_snoc]
        simp only [if_true]
        exact List.dropLast_concat
    rw [hs2]
    have hc : (numeral h ++ 'h' :: numeral m).contains 'h' = true := by simp
    simp only [hc, if_true]
    have hsp : splitOn 'h' (numeral h ++ 'h' :: numeral m) = [numeral h, numeral m] := by
      rw [RoundTrip.splitOn_append 'h' _ _ (numeral_no h 'h' (by decide)),
          RoundTrip.splitOn_nosep 'h' _ (numeral_no m 'h' (by decide))]
    simp only [hsp, strip_id c _ (numeral_nospace c ha h), strip_id c _ (numeral_nospace c ha m),
      pyInt_numeral c ha h, pyInt_numeral c ha m]
    have hne : (numeral m).isEmpty = false := by
      cases hq : numeral m with
      | nil => exact absurd hq (numeral_ne_nil m)
      | cons _ _ => rfl
    simp only [hne, Bool.false_eq_true, if_false]
    have h1 : ¬ ((h : Int) < 0) := by omega
    have h2 : ¬ ((m : Int) < 0) := by omega
    have h3 : ¬ ((59 : Int) < (m : Int)) := by omega
    simp [h1, h2, h3, SpeedText.value]

/-! Non-vacuity: the ASCII-only interpretation is `Ascii`, and `2h58` is 178 minutes. -/
def asciiChars : Chars :=
  { dv := fun ch => if ch.isDigit then some (ch.toNat - 48) else none, sp := fun ch => ch = ' ' }

example : Ascii asciiChars :=
  ⟨fun ch h => by simp [asciiChars, h],
   fun ch h => by
     have : ch ≠ ' ' := isDigit_ne ch h ' ' (by decide)
     simp [asciiChars, this],
   by decide⟩

example : (SpeedText.hoursMinutes 2 58 false).text = "2h58".toList ∧
    (SpeedText.hoursMinutes 2 58 false).value = 178 ∧ (SpeedText.hoursMinutes 2 58 false).WF := by
  refine ⟨by decide, by decide, ?_⟩
  show 58 ≤ 59
  omega

/-! ### The command line (`Model/Cli.lean`: `console_main`) -/

/-- A start row that the syntax refuses ends the run with the start row's own message - before anything else
is looked at. -/
theorem cli_bad_start_row (c : Chars) (a : Cli.Args) (u : Option (List Char × List Char)) (s : List Char)
    (e : String) (hs : a.startRow = some s) (hbad : startRow s = .own e) :
    Cli.consoleArgs c a u = .exitStartRow :=
  Cli.bad_start_row_exits c a u s e hs hbad

/-- A peal speed that the syntax refuses ends the run with the peal speed's own message (the start row and the
generator having been accepted). -/
theorem cli_bad_peal_speed (c : Chars) (a : Cli.Args) (u : Option (List Char × List Char)) (src : Cli.Source)
    (e : String) (hs : ∀ s, a.startRow = some s → ∃ n, startRow s = .ok n)
    (hg : Cli.createRowGenerator c a u = .ok src) (hbad : pealSpeed c a.pealSpeed = .own e) :
    Cli.consoleArgs c a u = .exitPealSpeed :=
  Cli.bad_peal_speed_exits c a u src e hs hg hbad

/-- A place notation that the syntax refuses: "Bad value for '--place-notation'". -/
theorem cli_bad_place_notation (c : Chars) (a : Cli.Args) (u : Option (List Char × List Char)) (text : List Char)
    (e : String) (hc : a.comp = none) (hm : a.method = none) (hp : a.pn = some text)
    (hbad : placeNotation c text = .own e) : Cli.createRowGenerator c a u = .error .exitPN :=
  Cli.bad_pn_exits c a u text e hc hm hp hbad

/-- A call definition that the syntax refuses leaves `main` as the calls' own error. -/
theorem cli_bad_call (c : Chars) (a : Cli.Args) (u : Option (List Char × List Char)) (text pn : List Char)
    (stage : Nat) (e : String) (hc : a.comp = none) (hm : a.method = none) (hp : a.pn = some text)
    (hpn : placeNotation c text = .ok (stage, pn)) (hb : callDef c a.bob = .own e) :
    Cli.createRowGenerator c a u = .error (.raised e) :=
  Cli.bad_call_raises c a u text pn stage e hc hm hp hpn hb

/-- What is built is never built from a refused value: the peal speed handed to the rhythm is the value of
the text given, and the generator is the one `create_row_generator` accepted. -/
theorem cli_built_from_accepted_values (c : Chars) (a : Cli.Args) (u : Option (List Char × List Char))
    (cfg : Cli.Cfg) (h : Cli.consoleArgs c a u = .built cfg) :
    pealSpeed c a.pealSpeed = .ok cfg.pealSpeed ∧ Cli.createRowGenerator c a u = .ok cfg.source :=
  ⟨(Cli.consoleArgs_built c a u cfg h).2.2.2.2.2.2.2.2.2.1, (Cli.consoleArgs_built c a u cfg h).2.2.2.2.2.2.2.2.2.2⟩

/-- Non-vacuity: `-p 6:x16x16x16,12 -H -S 3h` is built, with both handbell switches and 180 minutes; `-S 3x`
is refused with the peal speed's message; no generator option is a usage error. -/
example :
    (match Cli.consoleMain asciiChars [.pn "6:x16x16x16,12".toList, .handbell, .pealSpeed "3h".toList] none with
     | .built cfg => cfg.udi && cfg.sar && cfg.pealSpeed == 180 && cfg.useWait
     | _ => false) = true ∧
    (match Cli.consoleMain asciiChars [.pealSpeed "3x".toList, .pn "6:x16x16x16,12".toList] none with
     | .exitPealSpeed => true
     | _ => false) = true ∧
    (match Cli.consoleMain asciiChars [.udi] none with
     | .usage => true
     | _ => false) = true := by
  refine ⟨?_, ?_, ?_⟩ <;> decide +kernel

end Wheatley.C18
