/-
C18 — command-line values parse to what the syntax says or fail with their own error.

`Chars` abstracts Python's Unicode tables (decimal value of a character, white space).  The theorems
hold for every interpretation that satisfies `Sane` — what Python guarantees: a decimal digit is not
white space, an underscore or a sign.
-/
import Wheatley.Model.Parse
import Wheatley.Lemmas.StartRow
namespace Wheatley.C18
open Wheatley.Parse

structure Sane (c : Chars) : Prop where
  digit_not_space : ∀ ch d, c.dv ch = some d → c.sp ch = false
  digit_not_underscore : c.dv '_' = none
  digit_not_minus : c.dv '-' = none
  digit_not_plus : c.dv '+' = none

/-! ### Totality: no parser ever raises anything but its own error -/

theorem pealSpeed_total (c : Chars) (s : List Char) : (pealSpeed c s).isCrash = false := by
  unfold pealSpeed
  simp only []
  repeat' split
  all_goals rfl

theorem callSegment_total (c : Chars) (seg : List Char) : (callSegment c seg).isCrash = false := by
  unfold callSegment
  simp only []
  repeat' split
  all_goals first | rfl | (rename_i h; simp_all [PRes.isCrash]) | simp_all [PRes.isCrash]

theorem callDef_total (c : Chars) (s : List Char) : (callDef c s).isCrash = false := by
  unfold callDef
  generalize splitOn '/' s = segs
  generalize ([] : List (Int × List Char)) = acc
  induction segs generalizing acc with
  | nil => rfl
  | cons seg rest ih =>
    unfold callDef.go
    have := callSegment_total c seg
    split
    · split
      · rfl
      · exact ih _
    · rfl
    · rename_i e h; rw [h] at this; simp [PRes.isCrash] at this

theorem startRow_total (s : List Char) : (startRow s).isCrash = false := by
  unfold startRow
  split
  · rfl
  · simp only []
    rename_i bells hb
    clear hb
    generalize (List.map (· + 1) (List.range (List.foldl max 0 bells))) = rem
    induction bells generalizing rem with
    | nil => unfold startRow.go; split <;> rfl
    | cons b rest ih =>
      unfold startRow.go
      split
      · exact ih (rem.erase b)
      · rfl

theorem compArg_go_total (c : Chars) (id : Int) :
    ∀ (qs : List (List Char)) (key : Option (List Char)) (sub : Option Int),
      (compArg.go c id qs key sub).isCrash = false := by
  intro qs
  induction qs with
  | nil => intro key sub; rfl
  | cons q rest ih =>
    intro key sub
    unfold compArg.go
    split
    · simp only []
      split
      · split
        · rfl
        · exact ih _ _
      · exact ih _ _
    · exact ih _ _

theorem compArg_total (c : Chars) (parsed : Option (List Char × List Char)) :
    (compArg c parsed).isCrash = false := by
  unfold compArg
  split
  · rfl
  · split
    · split
      · rfl
      · split
        · split
          · rfl
          · split
            · rfl
            · exact compArg_go_total c _ _ _ _
        · rfl
    · rfl

/-- All-decimal, non-empty strings are accepted by `int()`. -/
theorem digitsVal_decimal (c : Chars) (hs : Sane c) :
    ∀ (s : List Char) (acc : Nat) (prev : Bool), (∀ ch ∈ s, (c.dv ch).isSome) → (s ≠ [] ∨ prev = true) →
      (digitsVal c s acc prev).isSome := by
  intro s
  induction s with
  | nil => intro acc prev _ h; rcases h with h | h <;> simp_all [digitsVal]
  | cons ch rest ih =>
    intro acc prev hall _
    have hch := hall ch (by simp)
    unfold digitsVal
    have hne : ch ≠ '_' := by
      intro e; subst e; rw [hs.digit_not_underscore] at hch; simp at hch
    simp only [hne, if_false]
    cases hd : c.dv ch with
    | none => rw [hd] at hch; simp at hch
    | some d => exact ih _ true (fun x hx => hall x (by simp [hx])) (Or.inr rfl)

theorem strip_decimal (c : Chars) (hs : Sane c) (s : List Char) (hall : ∀ ch ∈ s, (c.dv ch).isSome) :
    strip c s = s := by
  have hnsp : ∀ ch ∈ s, c.sp ch = false := by
    intro ch h
    cases hd : c.dv ch with
    | none => have := hall ch h; rw [hd] at this; simp at this
    | some d => exact hs.digit_not_space ch d hd
  unfold strip
  have h1 : s.dropWhile c.sp = s := by
    cases s with
    | nil => rfl
    | cons a r => simp [List.dropWhile, hnsp a (by simp)]
  rw [h1]
  have h2 : s.reverse.dropWhile c.sp = s.reverse := by
    cases hr : s.reverse with
    | nil => rfl
    | cons a r =>
      have : a ∈ s := by
        have : a ∈ s.reverse := by rw [hr]; simp
        simpa using this
      simp [List.dropWhile, hnsp a this]
  rw [h2, List.reverse_reverse]

theorem pyInt_decimal (c : Chars) (hs : Sane c) (s : List Char) (h : isDecimal c s = true) :
    (pyInt c s).isSome := by
  unfold isDecimal at h
  simp only [Bool.and_eq_true, Bool.not_eq_true', List.all_eq_true] at h
  obtain ⟨hne, hall⟩ := h
  have hne' : s ≠ [] := by intro e; subst e; simp at hne
  unfold pyInt
  rw [strip_decimal c hs s hall]
  have hd := digitsVal_decimal c hs s 0 false hall (Or.inl hne')
  cases s with
  | nil => exact absurd rfl hne'
  | cons a r =>
    have ha := hall a (by simp)
    have h1 : a ≠ '-' := by intro e; subst e; rw [hs.digit_not_minus] at ha; simp at ha
    have h2 : a ≠ '+' := by intro e; subst e; rw [hs.digit_not_plus] at ha; simp at ha
    cases hq : digitsVal c (a :: r) 0 false with
    | none => rw [hq] at hd; simp at hd
    | some n =>
      split
      · rename_i r' heq; injection heq with e1 _; exact absurd e1 h1
      · rename_i r' heq; injection heq with e1 _; exact absurd e1 h2
      · simp [hq]

/-- **`parse_place_notation` is total**: after the `isdecimal()` test `int()` cannot fail, so a bare
`ValueError` is impossible. -/
theorem placeNotation_total (c : Chars) (hs : Sane c) (s : List Char) : (placeNotation c s).isCrash = false := by
  unfold placeNotation
  split
  · rename_i stagePart pn _
    by_cases hd : isDecimal c stagePart = true
    · simp only [hd, Bool.not_true, Bool.false_eq_true, if_false]
      have := pyInt_decimal c hs stagePart hd
      cases hq : pyInt c stagePart with
      | none => rw [hq] at this; simp at this
      | some st => simp only []; repeat' split
                   all_goals rfl
    · simp only [hd, Bool.not_false, if_true]; rfl
  · rfl

/-! ### Accepted values can be rung -/

theorem validPiece_converts (p : List Char) (h : validPiece upperAscii p = true) : (convertPiece p).isSome := by
  unfold validPiece at h
  unfold convertPiece
  by_cases hp : p = ['-']
  · simp [hp]
  · simp only [hp, if_false]
    have hall : ∀ y ∈ p, bellNames.contains (upperAscii y) = true := by
      simpa [hp] using h
    unfold bellsOfString
    have : ∀ (l : List Char), (∀ y ∈ l, bellNames.contains y = true) → (l.mapM bellOfChar).isSome := by
      intro l
      induction l with
      | nil => intro _; simp
      | cons a r ih =>
        intro hl
        have ha : bellNames.contains a = true := hl a (by simp)
        have : (bellOfChar a).isSome := by
          unfold bellOfChar
          have hm : a ∈ bellNames := by simpa using ha
          cases hq : bellNames.idxOf? a with
          | none =>
            have := List.idxOf?_eq_none_iff.mp hq
            exact absurd hm this
          | some i => simp
        have ih' := ih (fun y hy => hl y (by simp [hy]))
        simp only [List.mapM_cons]
        cases h1 : bellOfChar a with
        | none => rw [h1] at this; simp at this
        | some v =>
          cases h2 : r.mapM bellOfChar with
          | none => rw [h2] at ih'; simp at ih'
          | some vs => simp [h1, h2]
    apply this
    intro y hy
    simp only [List.mem_map] at hy
    obtain ⟨x, hx, rfl⟩ := hy
    exact hall x hx

theorem mapM_isSome {α β} (f : α → Option β) (l : List α) (h : ∀ a ∈ l, (f a).isSome) : (l.mapM f).isSome := by
  induction l with
  | nil => simp
  | cons a r ih =>
    have ha := h a (by simp)
    have ih' := ih (fun x hx => h x (by simp [hx]))
    simp only [List.mapM_cons]
    cases h1 : f a with
    | none => rw [h1] at ha; simp at ha
    | some v =>
      cases h2 : r.mapM f with
      | none => rw [h2] at ih'; simp at ih'
      | some vs => simp [h1, h2]

theorem validBlock_converts (s : List Char) (e : Bool) (h : validBlock upperAscii s = true) :
    (convertBlock s e).isSome := by
  unfold validBlock at h
  unfold convertBlock
  simp only []
  have := mapM_isSome convertPiece (pnPieces s)
    (fun p hp => validPiece_converts p (by simpa using (List.all_eq_true.mp h) p hp))
  cases hq : (pnPieces s).mapM convertPiece with
  | none => rw [hq] at this; simp at this
  | some conv => simp

/-- **`valid_pn` accepts only what `convert_pn` can convert.** -/
theorem valid_implies_convert (s : List Char) (h : validPN upperAscii s = true) : (convertPN s).isSome := by
  unfold validPN at h
  unfold convertPN
  by_cases hc : s.contains ',' = true
  · simp only [hc, if_true] at h ⊢
    have := mapM_isSome (convertBlock · true) (splitOn ',' s)
      (fun b hb => validBlock_converts b true (by simpa using (List.all_eq_true.mp h) b hb))
    cases hq : (splitOn ',' s).mapM (convertBlock · true) with
    | none => rw [hq] at this; simp at this
    | some bs => simp
  · simp only [hc, Bool.false_eq_true, if_false] at h ⊢
    exact validBlock_converts s false h

/-- An accepted stage is one Wheatley has bells for. -/
theorem accepted_stage_in_range (c : Chars) (s pn : List Char) (stage : Nat)
    (h : placeNotation c s = .ok (stage, pn)) : 1 ≤ stage ∧ stage ≤ 16 := by
  unfold placeNotation at h
  split at h
  · split at h
    · cases h
    · split at h
      · cases h
      · rename_i st hst
        split at h
        · cases h
        · rename_i hrange
          split at h
          · cases h
          · injection h with h
            injection h with h1 h2
            subst h1
            simp only [maxBell, Bool.or_eq_true, decide_eq_true_eq, not_or, Int.not_lt] at hrange
            have h1 := hrange.1
            have h2 : st ≤ 16 := by
              rcases Int.lt_or_le 16 st with hlt | hge
              · exact absurd (decide_eq_true (by exact_mod_cast hlt)) hrange.2
              · exact hge
            constructor <;> omega
  · cases h

/-- **Every accepted place notation can be rung**: the generator's constructor succeeds on it. -/
theorem accepted_notation_can_be_rung (c : Chars) (s pn : List Char) (stage : Nat)
    (h : placeNotation c s = .ok (stage, pn)) : (mkPN stage pn none none 0 none).isSome := by
  have hr := accepted_stage_in_range c s pn stage h
  unfold placeNotation at h
  split at h
  · rename_i stagePart pn' _
    split at h
    · cases h
    · split at h
      · cases h
      · rename_i st hst
        split at h
        · cases h
        · rename_i hrange
          split at h
          · cases h
          · rename_i hvalid
            injection h with h
            injection h with h1 h2
            subst h2
            have hv : validPN upperAscii pn' = true := by simpa using hvalid
            have hconv := valid_implies_convert pn' hv
            unfold mkPN
            have hle : ¬ maxBell < stage := by simp only [maxBell]; omega
            simp only [startingRow, hle, if_false]
            cases hq : convertPN pn' with
            | none => rw [hq] at hconv; simp at hconv
            | some mpn =>
              simp only []
              have c14 : convertPN "14".toList = some [[1, 4]] := by decide
              have c1234 : convertPN "1234".toList = some [[1, 2, 3, 4]] := by decide
              have hb : (parseCallDict mpn.length (none.getD defaultBob)).isSome := by
                unfold parseCallDict; apply mapM_isSome; intro a ha
                simp [defaultBob, Generated.defaultBob] at ha; subst ha; simp only [c14]; rfl
              have hsg : (parseCallDict mpn.length (none.getD defaultSingle)).isSome := by
                unfold parseCallDict; apply mapM_isSome; intro a ha
                simp [defaultSingle, Generated.defaultSingle] at ha; subst ha; simp only [c1234]; rfl
              cases h1 : parseCallDict mpn.length (none.getD defaultBob) with
              | none => rw [h1] at hb; simp at hb
              | some b =>
                cases h2 : parseCallDict mpn.length (none.getD defaultSingle) with
                | none => rw [h2] at hsg; simp at hsg
                | some sg => simp
  · cases h

/-- **Every accepted call definition can be rung**: each of its notations converts. -/
theorem accepted_call_converts (c : Chars) (seg pn : List Char) (loc : Int)
    (h : callSegment c seg = .ok (loc, pn)) : (convertPN pn).isSome ∧ pn ≠ [] := by
  unfold callSegment at h
  simp only [] at h
  split at h
  · rename_i loc' pn' _
    split at h
    · cases h
    · split at h
      · cases h
      · rename_i hne hvalid
        injection h with h
        injection h with h1 h2
        subst h2
        exact ⟨valid_implies_convert pn' (by simpa using hvalid), by intro e; subst e; simp at hne⟩
  · rename_i e hne; rw [h] at hne; exact absurd rfl (hne _ _)

/-! ### The value of an accepted start row -/

/-- The multiset test at the heart of `parse_start_row`: crossing the bells off a list one by one
succeeds exactly when the bells are a rearrangement of that list. -/
theorem startRow_go_iff (s : List Char) (bells rem : List Nat) (n : Nat) :
    startRow.go s bells rem = .ok n ↔ bells.Perm rem ∧ n = s.length := by
  induction bells generalizing rem with
  | nil =>
    unfold startRow.go
    constructor
    · intro h
      split at h
      · rename_i he
        simp only [PRes.ok.injEq] at h
        exact ⟨by simp [List.isEmpty_iff.mp he], h.symm⟩
      · cases h
    · rintro ⟨hp, rfl⟩
      have : rem = [] := List.Perm.nil_eq hp |>.symm
      simp [this]
  | cons b rest ih =>
    unfold startRow.go
    by_cases hc : rem.contains b = true
    · rw [if_pos hc, ih]
      have hm : b ∈ rem := by simpa using hc
      constructor
      · rintro ⟨hp, hn⟩
        exact ⟨(List.Perm.cons b hp).trans (List.perm_cons_erase hm).symm, hn⟩
      · rintro ⟨hp, hn⟩
        refine ⟨?_, hn⟩
        have := hp.trans (List.perm_cons_erase hm)
        exact (List.perm_cons b).mp this
    · rw [if_neg hc]
      constructor
      · intro h; cases h
      · rintro ⟨hp, _⟩
        exfalso
        apply hc
        have : b ∈ rem := hp.subset (by simp)
        simpa using this

/-- **What `parse_start_row` accepts, exactly**: a string of bell names that is a rearrangement of
`1 … k` for its largest bell `k` (so no bell twice, none missing below the largest); the value is the
length of the string.  Everything else is its own `StartRowParseError`. -/
theorem startRow_accepts_iff (s : List Char) (n : Nat) :
    startRow s = .ok n ↔
      ∃ bells, bellsOfString s = some bells ∧ bells.Perm (rounds (bells.foldl max 0)) ∧ n = s.length := by
  unfold startRow
  cases hb : bellsOfString s with
  | none => simp
  | some bells =>
    simp only [Option.some.injEq, exists_eq_left']
    exact startRow_go_iff s bells _ n

/-! Non-vacuity: Queens on six is accepted with value 6; a row with a gap is not. -/
example : startRow "135246".toList = .ok 6 ∧ startRow "1356".toList = .own "StartRowParseError" := by
  constructor <;> rfl

end Wheatley.C18
