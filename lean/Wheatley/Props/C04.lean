/-
C04 — Bob and Single act exactly at the next call position, exactly once.

The statements are about `pnStep` (the model of `PlaceNotationGenerator._gen_row`) and `dixonStep`.
`callAt d li` is "the call is defined at lead index `li`" (`d.get(li)` truthy).
-/
import Wheatley.Lemmas.Gen
import Wheatley.Lemmas.Cli
import Wheatley.Lemmas.Handlers
namespace Wheatley.C04

/-- The plain change of the method at row `index`. -/
def plainChange (c : PNCfg) (index : Nat) : Places := c.methodPN.getD (leadIndex c index) []

/-- "No call is due at this row": each pending call is undefined at the current lead index. -/
def NothingFires (c : PNCfg) (g : Gen) : Prop :=
  (g.hasBob = true → callAt c.bobs (leadIndex c g.index) = none) ∧
  (g.hasSingle = true → callAt c.singles (leadIndex c g.index) = none)

theorem arm_id_of_nothingFires (c : PNCfg) (g : Gen) (h : NothingFires c g) : pnArm c g = g := by
  unfold pnArm
  obtain ⟨hb, hs⟩ := h
  cases hB : g.hasBob <;> cases hS : g.hasSingle <;> simp_all

/-- **A call alters nothing until its position.**  While no pending call is defined at the current
lead index and no earlier call is still being generated, the row is the plain row and the pending
flags are untouched (the call stays pending). -/
theorem call_inert_before_position (c : PNCfg) (g : Gen) (h : NothingFires c g) (hq : g.callPN = []) :
    (pnStep c g).2 = permute c.stage g.row (plainChange c g.index) ∧
    (pnStep c g).1.hasBob = g.hasBob ∧ (pnStep c g).1.hasSingle = g.hasSingle ∧
    (pnStep c g).1.callPN = [] := by
  simp [pnStep, arm_id_of_nothingFires c g h, pnChange, hq, plainChange]

/-- **A call made where none is defined never changes a row immediately** (special case, stated
for the row right after the call is made). -/
theorem undefined_call_no_immediate_change (c : PNCfg) (g : Gen) (hq : g.callPN = [])
    (hf : g.hasBob = false ∧ g.hasSingle = false)
    (hb : callAt c.bobs (leadIndex c g.index) = none) :
    (pnStep c g.setBob).2 = (pnStep c g).2 := by
  have h1 : NothingFires c g.setBob := ⟨fun _ => hb, fun h => by simp [Gen.setBob, hf.2] at h⟩
  have h2 : NothingFires c g := ⟨fun h => by simp [hf.1] at h, fun h => by simp [hf.2] at h⟩
  rw [(call_inert_before_position c g.setBob h1 hq).1, (call_inert_before_position c g h2 hq).1]
  rfl

/-- **At its position a Bob fires**: the first change of the Bob's notation is used instead of the
method's, both flags are cleared (it fires once), and the rest of the notation is queued. -/
theorem bob_fires (c : PNCfg) (g : Gen) (p : Places) (rest : List Places) (hB : g.hasBob = true)
    (hd : callAt c.bobs (leadIndex c g.index) = some (p :: rest)) :
    (pnStep c g).2 = permute c.stage g.row p ∧
    (pnStep c g).1.hasBob = false ∧ (pnStep c g).1.hasSingle = false ∧
    (pnStep c g).1.callPN = rest := by
  simp [pnStep, pnArm, hB, hd, pnChange, Gen.resetCalls]

/-- The same for a Single (when no Bob fires at this row). -/
theorem single_fires (c : PNCfg) (g : Gen) (p : Places) (rest : List Places)
    (hB : g.hasBob = true → callAt c.bobs (leadIndex c g.index) = none) (hS : g.hasSingle = true)
    (hd : callAt c.singles (leadIndex c g.index) = some (p :: rest)) :
    (pnStep c g).2 = permute c.stage g.row p ∧
    (pnStep c g).1.hasBob = false ∧ (pnStep c g).1.hasSingle = false ∧
    (pnStep c g).1.callPN = rest := by
  cases hb : g.hasBob
  · simp [pnStep, pnArm, hb, hS, hd, pnChange, Gen.resetCalls]
  · simp [pnStep, pnArm, hb, hB hb, hS, hd, pnChange, Gen.resetCalls]

/-- Run `n` plain `next` operations (no calls made meanwhile) on a place-notation generator. -/
def iter (c : PNCfg) : Nat → Gen → Gen × List Row
  | 0, g => (g, [])
  | n + 1, g =>
    let (g1, r) := pnStep c g
    let g2 := { g1 with row := r, index := g.index + 1 }
    let (g3, rs) := iter c n g2
    (g3, r :: rs)

/-- The rows obtained by applying the given changes one after the other. -/
def applyAll (stage : Nat) : Row → List Places → List Row
  | _, [] => []
  | r, p :: ps => permute stage r p :: applyAll stage (permute stage r p) ps

/-- **The call's notation replaces the method's for exactly the length of the call**, whatever the
lead positions passed meanwhile: with the remaining changes `q` queued and no call pending, the
next `q.length` rows are `q` applied in order, after which nothing is queued and nothing is
pending — the generator is in a plain state at the advanced index. -/
theorem queued_call_runs_out (c : PNCfg) :
    ∀ (q : List Places) (g : Gen), g.callPN = q → g.hasBob = false → g.hasSingle = false →
      (iter c q.length g).2 = applyAll c.stage g.row q ∧
      (iter c q.length g).1.callPN = [] ∧ (iter c q.length g).1.hasBob = false ∧
      (iter c q.length g).1.hasSingle = false ∧ (iter c q.length g).1.index = g.index + q.length := by
  intro q
  induction q with
  | nil => intro g hq hb hs; simp [iter, applyAll, hq, hb, hs]
  | cons p q ih =>
    intro g hq hb hs
    have harm : pnArm c g = g := by simp [pnArm, hb, hs]
    have hstep : pnStep c g = ({ g with callPN := q }, permute c.stage g.row p) := by
      simp [pnStep, harm, hq, pnChange]
    simp only [List.length_cons, iter, hstep]
    have := ih { g with callPN := q, row := permute c.stage g.row p, index := g.index + 1 } rfl hb hs
    obtain ⟨h1, h2, h3, h4, h5⟩ := this
    refine ⟨?_, h2, h3, h4, ?_⟩
    · simp only [applyAll]; rw [h1]
    · rw [h5]; simp; omega

/-- **Afterwards the plain method resumes**: in a plain state (nothing pending, nothing queued) a
row is the plain row and the state stays plain, so later leads are plain unless a new call is made. -/
theorem plain_stays_plain (c : PNCfg) (g : Gen) (hq : g.callPN = []) (hb : g.hasBob = false)
    (hs : g.hasSingle = false) :
    (pnStep c g).2 = permute c.stage g.row (plainChange c g.index) ∧
    (pnStep c g).1.callPN = [] ∧ (pnStep c g).1.hasBob = false ∧ (pnStep c g).1.hasSingle = false := by
  have h : NothingFires c g := ⟨fun h => by simp [hb] at h, fun h => by simp [hs] at h⟩
  obtain ⟨h1, h2, h3, h4⟩ := call_inert_before_position c g h hq
  exact ⟨h1, h4, h2 ▸ hb, h3 ▸ hs⟩

/-- **Dixon's**: a pending Bob whose rule covers the leading bell supplies both changes of the whole
pull and is cleared only at the backstroke. -/
theorem dixon_bob_law (c : DixonCfg) (g : Gen) (hand : Bool) (r : Places × Places)
    (hB : g.hasBob = true) (hd : alGet c.bob (g.row.headD 0) = some r) :
    dixonStep c g hand =
      some ((if hand then g else g.resetCalls), permute c.stage g.row (if hand then r.1 else r.2)) := by
  unfold dixonStep
  simp only [hB, if_true, hd, pick]

/-- Identical call histories give identical rows: the generator is a function of its operations. -/
theorem deterministic (g : Gen) (ops₁ ops₂ : List GenOp) (h : ops₁ = ops₂) :
    (g.runOps ops₁).2 = (g.runOps ops₂).2 := by rw [h]

/-! Non-vacuity: Grandsire's Single (`3.123` at lead index `2n-2`) is a two-change call. -/
example : ∃ g c, mkGrandsire 7 none = some g ∧ g.kind = .pn c ∧
    callAt c.singles 12 = some [[3], [1, 2, 3]] ∧ callAt c.singles 13 = none := by
  refine ⟨(mkGrandsire 7 none).get (by decide), _, by simp, rfl, by decide, by decide⟩

/-! ### The command line (`Model/Cli.lean`: `console_main`) -/

/-- The generator that `-p` builds has exactly the call definitions that the last `--bob` / `--single` given
parse to (the defaults when none was given) - nothing is merged in. -/
theorem cli_calls_are_the_given_ones (c : Parse.Chars) (os : List Cli.Opt) (u : Option (List Char × List Char))
    (text pn : List Char) (stage : Nat) (b s : List (Int × List Char)) (g : Gen)
    (hc : (Cli.parseOpts os).comp = none) (hm : (Cli.parseOpts os).method = none)
    (hp : (Cli.parseOpts os).pn = some text) (hpn : Parse.placeNotation c text = .ok (stage, pn))
    (hb : Parse.callDef c ((Cli.bobsGiven os).getLast?.getD Generated.cliBob.toList) = .ok b)
    (hs : Parse.callDef c ((Cli.singlesGiven os).getLast?.getD Generated.cliSingle.toList) = .ok s)
    (hg : mkPN stage pn (some b) (some s) (Cli.parseOpts os).startIndex (Cli.parseOpts os).startRow = some g) :
    Cli.createRowGenerator c (Cli.parseOpts os) u = .ok (.gen g) := by
  apply Cli.pn_builds c _ u text pn stage b s g hc hm hp hpn
  · have := Cli.foldl_bob os {}
    simp only [Cli.parseOpts]; rw [this]; exact hb
  · have := Cli.foldl_single os {}
    simp only [Cli.parseOpts]; rw [this]; exact hs
  · exact hg

/-! ### The whole system -/
section System
variable {K : Type} [Num K]

/-- **A Bob or Single changes nothing when it is called** - at the level of the whole system, whenever the message
arrives (in rounds, in the method, mid-row, while the main thread waits for a human, while a Look To handler
sleeps) and whatever the state: the row being rung, the place in it, the generator's current row and its position
in the method are what they were, nothing is struck, the main thread is where it was.  All the call does is set its
flag; what the flag does is decided by `pnStep` at the next row it is defined for (the theorems above). -/
theorem call_changes_no_row_now (wt : K → K) (w : World K) (c : String)
    (hc : c = Generated.call_BOB ∨ c = Generated.call_SINGLE) :
    (World.deliver wt w (.msg (.call c))).bot.row = w.bot.row ∧
    (World.deliver wt w (.msg (.call c))).bot.place = w.bot.place ∧
    (World.deliver wt w (.msg (.call c))).bot.gen.row = w.bot.gen.row ∧
    (World.deliver wt w (.msg (.call c))).bot.gen.index = w.bot.gen.index ∧
    (World.deliver wt w (.msg (.call c))).bot.gen.callPN = w.bot.gen.callPN ∧
    (World.deliver wt w (.msg (.call c))).pc = w.pc ∧
    ringsOf (World.deliver wt w (.msg (.call c))).obs = ringsOf w.obs := by
  obtain ⟨hp, hr⟩ := deliver_never_rings wt w (.msg (.call c))
  refine ⟨?_, ?_, ?_, ?_, ?_, hp, hr⟩
  all_goals
    unfold World.deliver World.lookToSuspends
    rcases hc with rfl | rfl
    all_goals
      simp only [Generated.call_BOB, Generated.call_SINGLE, Generated.call_LOOK_TO, String.reduceBEq,
        Bool.false_eq_true, if_false]
      unfold World.deliverMsg
      simp only []
      split
      all_goals
        first
          | (dsimp only; rw [(foldl_applyOut_bot_crashed wt _ _ _).1]; rfl)
          | (rw [(foldl_applyOut_bot_crashed wt _ _ _).1]; rfl)

end System

end Wheatley.C04
