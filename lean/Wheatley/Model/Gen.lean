/-
Model of the row generators: `RowGenerator` (state + reset), `PlaceNotationGenerator`,
`PlainHuntGenerator`, `DixonoidsGenerator`, `ComplibCompositionGenerator` (row/call payload part),
`PlaceHolderGenerator`.
-/
import Wheatley.Model.PN
namespace Wheatley

/-- Last-write-wins association list (a Python `dict` built by successive `d[k] = v`). -/
def alGet {β} (l : List (Nat × β)) (k : Nat) : Option β :=
  match l.reverse.find? (fun p => p.1 == k) with
  | some p => some p.2
  | none => none

/-- Configuration of a `PlaceNotationGenerator` after its constructor ran. -/
structure PNCfg where
  stage : Nat
  methodPN : List Places
  startIndex : Int
  /-- keyed by `(i - 1) % lead_len` -/
  bobs : List (Nat × List Places)
  singles : List (Nat × List Places)
  deriving Repr, BEq, DecidableEq

def PNCfg.leadLen (c : PNCfg) : Nat := c.methodPN.length

/-- Rules of a `DixonoidsGenerator`: leading bell ↦ (handstroke pn, backstroke pn). -/
structure DixonCfg where
  stage : Nat
  plain : List (Nat × (Places × Places))
  bob : List (Nat × (Places × Places))
  single : List (Nat × (Places × Places))
  deriving Repr, BEq, DecidableEq

structure CompCfg where
  stage : Nat
  /-- `loaded_rows` (after the opening rounds) -/
  rows : List (Row × List String)
  /-- `Stroke.from_index(num_starting_rounds)`: `true` = handstroke -/
  startHand : Bool
  /-- `_early_calls`: rows-before-start ↦ calls -/
  early : List (Nat × List String)
  deriving Repr, BEq, DecidableEq

inductive GenKind where
  | pn (c : PNCfg)
  | plainHunt (stage : Nat)
  | dixon (c : DixonCfg)
  | comp (c : CompCfg)
  | placeholder
  deriving Repr, BEq, DecidableEq

def GenKind.stage : GenKind → Nat
  | .pn c => c.stage
  | .plainHunt s => s
  | .dixon c => c.stage
  | .comp c => c.stage
  | .placeholder => 0

/-- A row generator object: immutable configuration plus the mutable fields of `RowGenerator` and
`PlaceNotationGenerator._generating_call_pn`. -/
structure Gen where
  kind : GenKind
  /-- `custom_start_row` as bell numbers (`none` when not given) -/
  customStart : Option Row
  startRow : Row
  hasBob : Bool
  hasSingle : Bool
  index : Nat
  row : Row
  callPN : List Places
  deriving Repr, BEq, DecidableEq

def Gen.stage (g : Gen) : Nat := g.kind.stage

/-- State right after the constructor. -/
def Gen.init (kind : GenKind) (customStart : Option Row) (startRow : Row) : Gen :=
  { kind, customStart, startRow, hasBob := false, hasSingle := false, index := 0, row := startRow,
    callPN := [] }

/-- `reset()`: `RowGenerator.reset` plus the `PlaceNotationGenerator` override that clears the
partly generated call. -/
def Gen.reset (g : Gen) : Gen :=
  { g with hasBob := false, hasSingle := false, index := 0, row := g.startRow, callPN := [] }

def Gen.resetCalls (g : Gen) : Gen := { g with hasBob := false, hasSingle := false }
def Gen.setBob (g : Gen) : Gen := { g with hasBob := true }
def Gen.setSingle (g : Gen) : Gen := { g with hasSingle := true }

/-- `start_stroke()`: `true` = handstroke. -/
def Gen.startHand (g : Gen) : Bool :=
  match g.kind with
  | .pn c => c.startIndex % 2 == 0
  | .comp c => c.startHand
  | _ => true

def Gen.earlyCalls (g : Gen) : List (Nat × List String) :=
  match g.kind with
  | .comp c => c.early
  | _ => []

/-- `(index + start_index) % lead_len` (Python `%`, non-negative for a positive modulus). -/
def leadIndex (c : PNCfg) (index : Nat) : Nat :=
  (((index : Int) + c.startIndex) % (c.leadLen : Int)).toNat

/-- Truthiness of `d.get(k)` for a dict of lists. -/
def callAt (d : List (Nat × List Places)) (k : Nat) : Option (List Places) :=
  match alGet d k with
  | some (p :: ps) => some (p :: ps)
  | _ => none

/-- Result of one `next_row_and_calls(stroke)`. -/
inductive GenOut where
  | ok (g : Gen) (row : Row) (calls : List String)
  | nullRowGen        -- `NullRowGenError` from the place holder
  | keyError          -- Dixonoid without a rule for `0`
  deriving Repr, BEq

/-- The `if self._has_bob and … elif self._has_single and …` part of `_gen_row`: a pending call
whose position is defined at this lead index becomes the call being generated. -/
def pnArm (c : PNCfg) (g : Gen) : Gen :=
  let li := leadIndex c g.index
  match (if g.hasBob then callAt c.bobs li else none) with
  | some pns => { g.resetCalls with callPN := pns }
  | none =>
    match (if g.hasSingle then callAt c.singles li else none) with
    | some pns => { g.resetCalls with callPN := pns }
    | none => g

/-- The change used for this row: the head of the call being generated, else the method's. -/
def pnChange (c : PNCfg) (g1 : Gen) (index : Nat) : Places :=
  match g1.callPN with
  | p :: _ => p
  | [] => c.methodPN.getD (leadIndex c index) []

/-- `PlaceNotationGenerator._gen_row` -/
def pnStep (c : PNCfg) (g : Gen) : Gen × Row :=
  let g1 := pnArm c g
  ({ g1 with callPN := g1.callPN.tail }, permute c.stage g.row (pnChange c g1 g.index))

def pick (hand : Bool) (p : Places × Places) : Places := if hand then p.1 else p.2

/-- `DixonoidsGenerator._gen_row`; `none` = `KeyError` on `plain_rules[0]`. -/
def dixonStep (c : DixonCfg) (g : Gen) (hand : Bool) : Option (Gen × Row) :=
  let leading := g.row.headD 0
  match (if g.hasBob then alGet c.bob leading else none) with
  | some r => some ((if hand then g else g.resetCalls), permute c.stage g.row (pick hand r))
  | none =>
    match (if g.hasSingle then alGet c.single leading else none) with
    | some r => some ((if hand then g else g.resetCalls), permute c.stage g.row (pick hand r))
    | none =>
      match alGet c.plain leading with
      | some r => some (g, permute c.stage g.row (pick hand r))
      | none =>
        match alGet c.plain 0 with
        | some r => some (g, permute c.stage g.row (pick hand r))
        | none => none

/-- `RowGenerator.next_row_and_calls(stroke)`; `hand` = `stroke.is_hand()`. -/
def Gen.next (g : Gen) (hand : Bool) : GenOut :=
  match g.kind with
  | .pn c =>
    let (g1, r) := pnStep c g
    .ok { g1 with row := r, index := g.index + 1 } r []
  | .plainHunt stage =>
    let r := permute stage g.row (if hand then [] else [1, stage])
    .ok { g with row := r, index := g.index + 1 } r []
  | .dixon c =>
    match dixonStep c g hand with
    | some (g1, r) => .ok { g1 with row := r, index := g.index + 1 } r []
    | none => .keyError
  | .comp c =>
    match c.rows[g.index]? with
    | some (r, calls) => .ok { g with row := r, index := g.index + 1 } r calls
    | none => .ok { g with row := rounds c.stage, index := g.index + 1 } (rounds c.stage) []
  | .placeholder => .nullRowGen

/-! ### Operation sequences on a generator (the public API as used by `Bot` and the tests) -/

inductive GenOp where
  | next (hand : Bool)   -- `next_row_and_calls(stroke)`
  | bob                  -- `set_bob()`
  | single               -- `set_single()`
  | reset                -- `reset()`
  deriving Repr, BEq, DecidableEq

inductive GenEv where
  | row (r : Row) (calls : List String)
  | crash (e : String)
  deriving Repr, BEq, DecidableEq

def Gen.apply (g : Gen) : GenOp → Gen × Option GenEv
  | .bob => (g.setBob, none)
  | .single => (g.setSingle, none)
  | .reset => (g.reset, none)
  | .next hand =>
    match g.next hand with
    | .ok g' r calls => (g', some (.row r calls))
    | .nullRowGen => (g, some (.crash "NullRowGenError"))
    | .keyError => (g, some (.crash "KeyError"))

/-- Run operations until the first exception; returns the final generator and the events. -/
def Gen.runOps (g : Gen) : List GenOp → Gen × List GenEv
  | [] => (g, [])
  | op :: ops =>
    match g.apply op with
    | (g', some (.crash e)) => (g', [.crash e])
    | (g', some ev) => let (g'', evs) := g'.runOps ops; (g'', ev :: evs)
    | (g', none) => g'.runOps ops

/-- The rows among a list of events. -/
def evRows : List GenEv → List Row
  | [] => []
  | .row r _ :: evs => r :: evRows evs
  | .crash _ :: evs => evRows evs

/-! ### Constructors from the textual configuration -/

/-- `parse_call_dict`: keys become `(i - 1) % lead_len`; `none` = `ValueError` from `convert_pn`. -/
def parseCallDict (leadLen : Nat) (d : List (Int × List Char)) : Option (List (Nat × List Places)) :=
  d.mapM (fun (i, s) =>
    match convertPN s with
    | some pns => some (((i - 1) % (leadLen : Int)).toNat, pns)
    | none => none)

def defaultBob : List (Int × List Char) := Generated.defaultBob.map (fun (i, s) => (i, s.toList))
def defaultSingle : List (Int × List Char) := Generated.defaultSingle.map (fun (i, s) => (i, s.toList))

/-- `PlaceNotationGenerator(stage, method, bob, single, start_index, start_row)`.
`none` = the constructor raised `ValueError` (bad bell symbol, repeated bell in the start row). -/
def mkPN (stage : Nat) (method : List Char) (bob single : Option (List (Int × List Char)))
    (startIndex : Int) (customStart : Option (List Char)) : Option Gen :=
  let custom? : Option (Option Row) :=
    match customStart with
    | none => some none
    | some s => (bellsOfString s).map some
  match custom? with
  | none => none
  | some custom =>
    -- `rounds(stage)` / `Bell.from_number(i)` raise ValueError above 16 bells
    match (if maxBell < stage then none else startingRow stage custom) with
    | none => none
    | some sr =>
      match convertPN method with
      | none => none
      | some mpn =>
        match parseCallDict mpn.length (bob.getD defaultBob),
              parseCallDict mpn.length (single.getD defaultSingle) with
        | some b, some s =>
          some (Gen.init (.pn { stage, methodPN := mpn, startIndex, bobs := b, singles := s }) custom sr)
        | _, _ => none

/-- `convert_to_bell_string(n)` for `1 ≤ n ≤ 16`. -/
def bellChar (n : Nat) : Char := bellNames.getD (n - 1) '?'

def intercalateDots (l : List (List Char)) : List Char := ".".toList.intercalate l

/-- `PlaceNotationGenerator.grandsire(stage)` notation string. -/
def grandsireNotation (stage : Nat) : List Char :=
  let cross : List Char := if stage % 2 == 1 then [bellChar stage] else ['-']
  let body := (List.range (2 * stage)).map (fun i => if i % 2 == 1 then ['1'] else cross)
  intercalateDots (body.set 0 ['3'])

def mkGrandsire (stage : Nat) (customStart : Option (List Char)) : Option Gen :=
  mkPN stage (grandsireNotation stage) (some [(-1, "3".toList)]) (some [(-1, "3.123".toList)]) 0
    customStart

def stedmanNotation (stage : Nat) : List Char :=
  let n := bellChar stage
  intercalateDots [['3'], ['1'], [n], ['3'], ['1'], ['3'], ['1'], ['3'], [n], ['1'], ['3'], ['1']]

def mkStedman (stage : Nat) (customStart : Option (List Char)) : Option Gen :=
  if stage == 5 then
    mkPN 5 "3.1.5.3.1.3.1.3.5.1.3.1".toList (some []) (some [(6, "345".toList), (12, "145".toList)]) 0
      customStart
  else
    let b2 := [bellChar (stage - 2)]
    let s3 := [bellChar (stage - 2), bellChar (stage - 1), bellChar stage]
    mkPN stage (stedmanNotation stage) (some [(3, b2), (9, b2)]) (some [(3, s3), (9, s3)]) 0 customStart

def mkSimple (kind : GenKind) (customStart : Option (List Char)) : Option Gen :=
  let custom? : Option (Option Row) :=
    match customStart with
    | none => some none
    | some s => (bellsOfString s).map some
  match custom? with
  | none => none
  | some custom =>
    match (if maxBell < kind.stage then none else startingRow kind.stage custom) with
    | none => none
    | some sr => some (Gen.init kind custom sr)

def mkPlainHunt (stage : Nat) (customStart : Option (List Char)) : Option Gen :=
  mkSimple (.plainHunt stage) customStart

/-- `_convert_pn_dict`: `convert_pn(pn)[0]` for the hand- and backstroke notation of each rule. -/
def convertRules (d : List (Nat × (String × String))) : List (Nat × (Places × Places)) :=
  d.map (fun (k, (h, b)) =>
    (k, (((convertPN h.toList).getD []).headD [], ((convertPN b.toList).getD []).headD [])))

/-- `DixonsRules`, `DefaultBob`, `DefaultSingle` (regenerated from the source) after
`_convert_pn_dict`. -/
def dixonDefault (stage : Nat) : DixonCfg :=
  { stage,
    plain := convertRules Generated.dixonRules,
    bob := convertRules Generated.dixonBob,
    single := convertRules Generated.dixonSingle }

def mkDixon (stage : Nat) (customStart : Option (List Char)) : Option Gen :=
  mkSimple (.dixon (dixonDefault stage)) customStart

def mkPlaceholder : Gen := Gen.init .placeholder none []

/-! ### `ComplibCompositionGenerator.__init__` (payload processing) -/

/-- ASCII part of the characters `str.strip()` removes. -/
def isPySpace (c : Char) : Bool :=
  c = ' ' || c = '\t' || c = '\n' || c = '\r' || c = '\x0b' || c = '\x0c' ||
  c = '\x1c' || c = '\x1d' || c = '\x1e' || c = '\x1f' || c = '\x85' || c = '\xa0'

def stripWs (s : List Char) : List Char :=
  ((s.dropWhile isPySpace).reverse.dropWhile isPySpace).reverse

/-- `process_call_string`: split on `;`, strip, drop `"Stand"`. -/
def processCallString (s : List Char) : List String :=
  ((splitOn ';' s).map (fun p => String.ofList (stripWs p))).filter (· != "Stand")

def callsOfField (s : List Char) : List String := if s.isEmpty then [] else processCallString s

/-- `num_starting_rounds`: the `while unparsed_rows[n][0] == unparsed_rows[0][0]` loop;
`none` = `IndexError` (every row equals the first, or no rows). -/
def countLeading (first : List Char) : List (List Char × List Char) → Nat → Option Nat
  | [], _ => none
  | (r, _) :: rest, n => if r = first then countLeading first rest (n + 1) else some n

inductive CompErr where
  | indexError | valueError
  deriving Repr, BEq

/-- The constructor of `ComplibCompositionGenerator` from the decoded JSON payload
(`rows` = list of (row string, call string), `stage`). -/
def mkComp (stage : Nat) (payload : List (List Char × List Char)) : Except CompErr Gen :=
  match payload with
  | [] => .error .indexError
  | (first, _) :: _ =>
    match countLeading first payload 0 with
    | none => .error .indexError
    | some nsr =>
      match (if maxBell < stage then none else
              payload.mapM (fun (r, c) => (bellsOfString r).map (fun row => (row, callsOfField c)))) with
      | none => .error .valueError
      | some loaded =>
        let early := ((loaded.take nsr).zipIdx.filter (fun (rc, _) => rc.2 != [])).map
          (fun (rc, i) => (nsr - i, rc.2))
        .ok (Gen.init (.comp { stage, rows := loaded.drop nsr, startHand := nsr % 2 == 0, early })
              none (rounds stage))

end Wheatley
