/-
Model of the console command line: `main.py: console_main` and `create_row_generator`, from the options as
given (in order) to what is built - the row generator, the rhythm's parameters, the Bot's flags - or to the way
the command line is refused.

What `argparse` does with the options is part of the model as far as it matters here: an option given twice
keeps the last value, an option not given has its default, switches are off unless given, and exactly one of
`--comp`, `--method`, `--place-notation` must be present.  Numbers that `argparse` converts itself (`-I`, `-G`,
`-X`, `--start-index`) arrive converted; inertia and gap are carried as uninterpreted values.

The value parsers, the generator constructors and the special titles are the models of `Model/Parse.lean` and
`Model/Gen.lean`; `urlparse` (for `--comp`) and the method library (for a title that is not special) are outside.
-/
import Wheatley.Model.Parse
import Wheatley.Generated.CliDefaults
namespace Wheatley.Cli
open Wheatley.Parse

/-- One option as given on the command line. -/
inductive Opt where
  | comp (v : List Char)
  | method (v : List Char)
  | pn (v : List Char)
  | bob (v : List Char)
  | single (v : List Char)
  | startIndex (v : Int)
  | startRow (v : List Char)
  | udi | sar | handbell | noCalls | keepGoing | wait
  | inertia (bits : Nat)
  | pealSpeed (v : List Char)
  | gap (bits : Nat)
  | maxBells (v : Int)
  | name (v : List Char)
  deriving Repr, DecidableEq

/-- What `parser.parse_args` returns (the fields `console_main` reads). -/
structure Args where
  comp : Option (List Char) := none
  method : Option (List Char) := none
  pn : Option (List Char) := none
  bob : List Char := Generated.cliBob.toList
  single : List Char := Generated.cliSingle.toList
  startIndex : Int := Generated.cliStartIndex
  startRow : Option (List Char) := none
  udi : Bool := false
  sar : Bool := false
  handbell : Bool := false
  noCalls : Bool := false
  keepGoing : Bool := false
  wait : Bool := false
  inertia : Nat := Generated.cliInertiaBits
  pealSpeed : List Char := Generated.cliPealSpeed.toList
  gap : Nat := Generated.cliGapBits
  maxBells : Int := Generated.cliMaxBells
  name : Option (List Char) := none
  deriving Repr, BEq

/-- `store` / `store_true`: the option's destination gets the value given. -/
def Args.set (a : Args) : Opt → Args
  | .comp v => { a with comp := some v }
  | .method v => { a with method := some v }
  | .pn v => { a with pn := some v }
  | .bob v => { a with bob := v }
  | .single v => { a with single := v }
  | .startIndex v => { a with startIndex := v }
  | .startRow v => { a with startRow := some v }
  | .udi => { a with udi := true }
  | .sar => { a with sar := true }
  | .handbell => { a with handbell := true }
  | .noCalls => { a with noCalls := true }
  | .keepGoing => { a with keepGoing := true }
  | .wait => { a with wait := true }
  | .inertia b => { a with inertia := b }
  | .pealSpeed v => { a with pealSpeed := v }
  | .gap b => { a with gap := b }
  | .maxBells v => { a with maxBells := v }
  | .name v => { a with name := some v }

def parseOpts (os : List Opt) : Args := os.foldl Args.set {}

/-- Does the option belong to the group of which exactly one member is required? -/
def Opt.inGroup : Opt → Nat
  | .comp _ => 1
  | .method _ => 2
  | .pn _ => 3
  | _ => 0

/-- `argparse` refuses two *different* members of the exclusive group (the same member twice is accepted, the
last value wins) and a command line with none. -/
def groupOk (os : List Opt) : Bool :=
  let gs := (os.map Opt.inGroup).filter (· != 0)
  match gs with
  | [] => false
  | g :: rest => rest.all (· == g)

/-! ### Special method titles (`generator_from_special_title`) -/

/-- `s.rsplit(" ", 1)` when there is a space. -/
def rsplitSpace (s : List Char) : Option (List Char × List Char) :=
  match s.reverse.span (· != ' ') with
  | (lastRev, _ :: restRev) => some (restRev.reverse, lastRev.reverse)
  | (_, []) => none

inductive Title where
  | notFound                  -- MethodNotFoundError
  | notSpecial                -- `None`: the method library is asked
  | gen (g : Option Gen)      -- a special generator (`none`: its constructor raised ValueError)

def stageOfName (c : Chars) (stageName : List Char) : Option Nat :=
  let byNumber : Option Nat :=
    if isDecimal c stageName then
      match pyInt c stageName with
      | some n => if Generated.stages.any (fun p => (p.2 : Int) == n) then some n.toNat else none
      | none => none
    else none
  match byNumber with
  | some n => some n
  | none => (Generated.stages.find? (fun p => p.1.toList == stageName)).map (·.2)

/-- For titles written in ASCII (`str.lower` is modelled by `Char.toLower`). -/
def specialTitle (c : Chars) (title : List Char) (startRow : Option (List Char)) : Title :=
  let lowered := strip c (title.map Char.toLower)
  match rsplitSpace lowered with
  | none => .notFound
  | some (nameRaw, stageName) =>
    let name := strip c nameRaw
    match stageOfName c stageName with
    | none => .notFound
    | some stage =>
      if name == "grandsire".toList && 5 ≤ stage then .gen (mkGrandsire stage startRow)
      else if name == "stedman".toList && stage % 2 == 1 && 5 ≤ stage then .gen (mkStedman stage startRow)
      else if name == "plain hunt".toList || name == "plain hunt on".toList then .gen (mkPlainHunt stage startRow)
      else if name == "dixon's bob".toList && stage == 6 then .gen (mkDixon stage startRow)
      else .notSpecial

/-! ### `create_row_generator` and `console_main` -/

/-- Where the rows come from. -/
inductive Source where
  | gen (g : Gen)
  /-- a CompLib composition: (id, access key, substituted method) as `parse_arg` reads the reference -/
  | comp (id : Int) (key : Option (List Char)) (sub : Option Int)
  /-- a method of the CCCBR library, with the call definitions and start it is given -/
  | library (title : List Char) (bob single : List (Int × List Char)) (startRow : Option (List Char)) (startIndex : Int)

/-- What the Bot and the rhythm are constructed with. -/
structure Cfg where
  source : Source
  udi : Bool
  sar : Bool
  callComps : Bool
  useWait : Bool
  pealSpeed : Int
  inertia : Nat
  gap : Nat
  maxBells : Int
  minBells : Int
  name : Option (List Char)

inductive Out where
  | usage                               -- argparse's own error, exit status 2
  | exitStartRow                        -- sys.exit(<StartRowParseError message>)
  | exitCompStartRow                    -- "You may not specify a custom start row with a composition"
  | exitMethod                          -- "Bad value for '--method': …"
  | exitPN                              -- "Bad value for '--place-notation': …"
  | exitPealSpeed                       -- sys.exit(<PealSpeedParseError message>)
  | raised (cls : String)               -- an exception that leaves `main`
  | built (cfg : Cfg)

/-- `create_row_generator(args)`; `urlparsed` is what `urlparse` makes of the composition reference. -/
def createRowGenerator (c : Chars) (a : Args) (urlparsed : Option (List Char × List Char)) :
    Except Out Source :=
  match a.comp, a.method, a.pn with
  | some _, _, _ =>
    if a.startRow.isSome then .error .exitCompStartRow
    else
      match compArg c urlparsed with
      | .ok (id, key, sub) => .ok (.comp id key sub)
      | .own e => .error (.raised e)
      | .crash e => .error (.raised e)
  | none, some title, _ =>
    match specialTitle c title a.startRow with
    | .notFound => .error .exitMethod
    | .gen (some g) => .ok (.gen g)
    | .gen none => .error (.raised "ValueError")
    | .notSpecial =>
      match callDef c a.bob with
      | .ok b =>
        match callDef c a.single with
        | .ok s => .ok (.library title b s a.startRow a.startIndex)
        | .own e => .error (.raised e)
        | .crash e => .error (.raised e)
      | .own e => .error (.raised e)
      | .crash e => .error (.raised e)
  | none, none, some text =>
    match placeNotation c text with
    | .own _ => .error .exitPN
    | .crash e => .error (.raised e)
    | .ok (stage, pn) =>
      match callDef c a.bob with
      | .ok b =>
        match callDef c a.single with
        | .ok s =>
          match mkPN stage pn (some b) (some s) a.startIndex a.startRow with
          | some g => .ok (.gen g)
          | none => .error (.raised "ValueError")
        | .own e => .error (.raised e)
        | .crash e => .error (.raised e)
      | .own e => .error (.raised e)
      | .crash e => .error (.raised e)
  | none, none, none => .error (.raised "AssertionError")

/-- `parse_start_row(args.start_row)` does not raise. -/
def startRowOk (a : Args) : Bool :=
  match a.startRow with
  | none => true
  | some s => match startRow s with
    | .ok _ => true
    | _ => false

/-- `console_main` from the parsed arguments on. -/
def consoleArgs (c : Chars) (a : Args) (urlparsed : Option (List Char × List Char)) : Out :=
  if !startRowOk a then .exitStartRow
  else
    match createRowGenerator c a urlparsed with
    | .error o => o
    | .ok src =>
      match pealSpeed c a.pealSpeed with
      | .own _ => .exitPealSpeed
      | .crash e => .raised e
      | .ok minutes =>
        .built { source := src,
                 udi := a.udi || a.handbell,
                 sar := a.sar || a.handbell,
                 callComps := !a.noCalls,
                 useWait := !a.keepGoing,
                 pealSpeed := minutes,
                 inertia := a.inertia,
                 gap := a.gap,
                 maxBells := a.maxBells,
                 minBells := min (Generated.minBellsInDataset : Int) a.maxBells,
                 name := a.name }

/-! ### `server_main` -/

/-- What `main(["server-mode", room, "--port", p, "--id", i])` constructs: nothing is chosen on the command line
but the port and the instance id; the rest are the constants of `server_main` (generated). -/
structure ServerCfg where
  /-- `"http://127.0.0.1:" + str(args.port)` (`str(None)` when no port is given) -/
  url : List Char
  cfg : Cfg
  initialInertia : Nat
  serverId : Option Int

def serverMain (port id : Option Int) : ServerCfg :=
  { url := "http://127.0.0.1:".toList ++ (match port with | some p => (toString p).toList | none => "None".toList),
    cfg := { source := .gen mkPlaceholder,
             udi := Generated.serverUdi, sar := Generated.serverSar, callComps := Generated.serverCallComps,
             useWait := Generated.serverUseWait, pealSpeed := Generated.serverPealSpeed,
             inertia := Generated.serverInertiaBits, gap := Generated.serverGapBits,
             maxBells := Generated.serverMaxBells,
             minBells := min (Generated.minBellsInDataset : Int) Generated.serverMaxBells,
             name := some Generated.serverName.toList },
    initialInertia := Generated.serverInitialInertiaBits,
    serverId := id }

/-- The whole command line. -/
def consoleMain (c : Chars) (os : List Opt) (urlparsed : Option (List Char × List Char)) : Out :=
  if !groupOk os then .usage else consoleArgs c (parseOpts os) urlparsed

end Wheatley.Cli
