/-
The tick loop of `Bot.main_loop` in the configuration C11 quantifies over: every bell is Wheatley's
and no message arrives.  Each turn is `wait_for_bell_time(now, …)` (regression rhythm, not user
controlled), the strike, and the loop's `time.sleep(0.01)`.
-/
import Wheatley.Model.Rhythm
namespace Wheatley
open Generated

/-- Strike times of the turns `(row, place)` in the given order, starting the first turn at `now`.
(`pullOff` cannot happen for a bell that is not user controlled; the list then ends.) -/
def soloTimes {K : Type} [Num K] (r : Reg K) : K → List (Nat × Nat) → List K
  | _, [] => []
  | now, (row, place) :: rest =>
    match r.waitPlan now row place false with
    | .sleep d => (now + d) :: soloTimes r (now + d + Num.ofQ tickSleep) rest
    | .pullOff => []

/-- The turns of `rows` whole rows on `n` bells, in ringing order. -/
def rowMajor (n rows : Nat) : List (Nat × Nat) :=
  (List.range rows).flatMap (fun r => (List.range n).map (fun p => (r, p)))

end Wheatley
