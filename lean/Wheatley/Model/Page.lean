/-
Model of `page_parser.py: get_load_balancing_url` (the text processing part; the HTTP request is
supplied by the harness) and of `_fix_url`.
-/
namespace Wheatley.Page

/-- `str.index(pat)`: position of the first occurrence; `none` = `ValueError`. -/
def findSub (pat : List Char) : List Char → Nat → Option Nat
  | [], i => if pat.isEmpty then some i else none
  | c :: cs, i => if pat.isPrefixOf (c :: cs) then some i else findSub pat cs (i + 1)

def marker : List Char := "server_ip".toList
/-- `len('server_ip: "')` -/
def markerLen : Nat := 12

/-- The URL between the quotes after `server_ip: "`; `none` = `TowerNotFoundError`. -/
def extractUrl (html : List Char) : Option (List Char) :=
  match findSub marker html 0 with
  | none => none
  | some i =>
    let rest := html.drop (i + markerLen)
    if rest.contains '"' then some (rest.takeWhile (· != '"')) else none

/-- `_fix_url` -/
def fixUrl (url : List Char) : List Char :=
  if "http".toList.isPrefixOf url then url else "https://".toList ++ url

end Wheatley.Page
