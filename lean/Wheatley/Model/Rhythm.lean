/-
Model of `wheatley/rhythm/regression.py` (`RegressionRhythm`, `calculate_regression`) and
`wheatley/rhythm/wait_for_user.py` (`WaitForUserRhythm`), generic in the number type `K`.

* The pure arithmetic helpers (`peal_speed_to_blow_interval`, `lerp`, `index_to_blow_time`, …) are
  *translated from the source on every run* (`Generated/Arith.lean`); this file uses them.
* `exp(-diff²)` is the parameter `wt` (instantiated with `Float.exp` in the driver, with
  `Real.exp` in the proofs).
* `start_time` can be the sentinel `float('inf')`: `Time.inf`.
-/
import Wheatley.Generated.Arith
import Wheatley.Generated.Constants
namespace Wheatley

open Generated

inductive Time (K : Type) where
  | fin (t : K)
  | inf
  deriving Repr

/-- Weighted least squares through `(b, t, w)` points: the closed form of
`(XᵀWX)⁻¹ XᵀW y` for the design matrix `[1 b]`.  Returns (start, interval). -/
def regress {K : Type} [Num K] (ds : List (K × K × K)) : K × K :=
  let z : K := Num.ofNat 0
  let s0 := ds.foldl (fun a (_, _, w) => a + w) z
  let s1 := ds.foldl (fun a (b, _, w) => a + w * b) z
  let s2 := ds.foldl (fun a (b, _, w) => a + w * b * b) z
  let t0 := ds.foldl (fun a (_, t, w) => a + w * t) z
  let t1 := ds.foldl (fun a (b, t, w) => a + w * b * t) z
  let det := s0 * s2 - s1 * s1
  ((s2 * t0 - s1 * t1) / det, (s0 * t1 - s1 * t0) / det)

/-- The same fit computed about the first data point (blow and time taken relative to it, the result
moved back): equal to `regress` in exact arithmetic (`Lemmas.Regress.regressCentred_eq`), but at
`Float` it does not lose digits to the size of the blow index or of the epoch, so it is what the
driver compares the implementation's `numpy` result with. -/
def regressCentred {K : Type} [Num K] (ds : List (K × K × K)) : K × K :=
  match ds with
  | [] => regress ds
  | (x0, y0, _) :: _ =>
    let r := regress (ds.map (fun d => (d.1 - x0, d.2.1 - y0, d.2.2)))
    (r.1 + y0 - r.2 * x0, r.2)

structure Reg (K : Type) where
  preferredInertia : K
  initialInertia : K
  pealSpeed : K
  gap : K
  minBells : Int
  maxBells : Int
  stage : Nat
  start : Time K
  interval : K
  /-- `_expected_bells`: (bell, handstroke?) ↦ (row, place) -/
  expected : List ((Nat × Bool) × (Nat × Nat))
  dataSet : List (K × K × K)
  shouldReturn : Bool
  /-- ghost (not in the code): number of regressions computed so far, and the model's own
  closed-form result for the last one; used by the driver to consume / cross-check the tape of the
  implementation's numpy results. -/
  nReg : Nat
  lastOwn : K × K
  /-- ghost: blow time of the newest point *retained in the data set* of that regression (where the
  two fits are compared: comparing intercepts would extrapolate thousands of blows back and only
  measure conditioning; so would comparing at a strike whose point was rejected for its weight, which
  can lie hundreds of rows beyond the data once a degenerate fit has made every later weight 0) -/
  lastX : K := lastOwn.1

def Reg.init {K} [Num K] (inertia pealSpeed gap : K) (minBells maxBells : Int) (initialInertia : K) :
    Reg K :=
  { preferredInertia := inertia, initialInertia, pealSpeed, gap, minBells, maxBells, stage := 0,
    start := .fin (Num.ofNat 0), interval := Num.ofNat 0, expected := [], dataSet := [],
    shouldReturn := false, nReg := 0, lastOwn := (Num.ofNat 0, Num.ofNat 0), lastX := Num.ofNat 0 }

def Reg.line {K} [Num K] (r : Reg K) (start : K) : Line K :=
  { stage := r.stage, gap := r.gap, start, interval := r.interval }

def Reg.blowTime {K} [Num K] (r : Reg K) (row place : Nat) : K :=
  indexToBlowTime (r.line (Num.ofNat 0)) row place

/-- `index_to_real_time(row, place)`; `inf` when the line is not anchored yet. -/
def Reg.realTime {K} [Num K] (r : Reg K) (row place : Nat) : Time K :=
  match r.start with
  | .fin s => .fin (indexToRealTime (r.line s) row place)
  | .inf => .inf

/-- The data set after `_add_data_point` appended the new point, dropped the points whose weight is
not above `WEIGHT_REJECTION_THRESHOLD`, and forgot the oldest one when full. -/
def Reg.newDataSet {K} [Num K] (r : Reg K) (row place : Nat) (realTime weight : K) : List (K × K × K) :=
  let ds1 := r.dataSet ++ [(r.blowTime row place, realTime, weight)]
  let ds2 := ds1.filter (fun d => Num.ofQ weightRejectionThreshold < d.2.2)
  if r.maxBells ≤ (ds2.length : Int) then ds2.tail else ds2

/-- The `lerp` of the fitted line into the current one. -/
def Reg.relerp {K} [Num K] (r : Reg K) (fit : K × K) (inertia : K) : Reg K :=
  match r.start with
  | .fin s => { r with start := .fin (lerp fit.1 s inertia), interval := lerp fit.2 r.interval inertia }
  | .inf => { r with start := .inf, interval := lerp fit.2 r.interval inertia }

/-- `_add_data_point`; `reg` supplies the result of `calculate_regression` for the filtered data set
(the driver passes the implementation's own numpy results as a tape so that LAPACK rounding cannot
flip a later comparison; the proofs instantiate it with `regress`). -/
def Reg.addDataPoint {K} [Num K] (r : Reg K) (reg : List (K × K × K) → K × K)
    (row place : Nat) (realTime weight : K) : Reg K :=
  let ds3 := r.newDataSet row place realTime weight
  let inertia := if 0 < row then r.preferredInertia else r.initialInertia
  let r1 := { r with dataSet := ds3 }
  if Num.eqb inertia (Num.ofNat 1) then r1
  else if r.minBells ≤ (ds3.length : Int) then
    ({ r1 with nReg := r.nReg + 1, lastOwn := regressCentred ds3, lastX := (match ds3.getLast? with | some d => d.1 | none => r.blowTime row place) }).relerp (reg ds3) inertia
  else r1

/-- What `wait_for_bell_time` of the regression rhythm does. -/
inductive InnerWait (K : Type) where
  | pullOff            -- `while self._start_time == inf: sleep(0.01)` then return (flag untouched)
  | sleep (d : K)      -- one `sleep(d)`, then `_should_return_to_mainloop = False`

def Reg.waitPlan {K} [Num K] (r : Reg K) (current : K) (row place : Nat) (userControlled : Bool) :
    InnerWait K :=
  match r.start with
  | .inf =>
    if userControlled then .pullOff
    else .sleep (if Num.eqb r.interval (Num.ofNat 0) then Num.ofNat 2 / Num.ofNat 10 else r.interval)
  | .fin s =>
    if Num.eqb s (Num.ofNat 0) then
      .sleep (if Num.eqb r.interval (Num.ofNat 0) then Num.ofNat 2 / Num.ofNat 10 else r.interval)
    else
      let bt := indexToRealTime (r.line s) row place
      if current < bt then .sleep (bt - current) else .sleep (Num.ofQ tickSleep)

def Reg.expect {K} (r : Reg K) (bell row place : Nat) (hand : Bool) : Reg K :=
  { r with expected := (r.expected.filter (fun p => p.1 != (bell, hand))) ++ [((bell, hand), (row, place))] }

def Reg.lookupExpected {K} (r : Reg K) (bell : Nat) (hand : Bool) : Option (Nat × Nat) :=
  match r.expected.find? (fun p => p.1 == (bell, hand)) with
  | some p => some p.2
  | none => none

/-- `on_bell_ring(bell, stroke, real_time)` -/
def Reg.onBellRing {K} [Num K] (r : Reg K) (wt : K → K) (reg : List (K × K × K) → K × K)
    (bell : Nat) (hand : Bool) (realTime : K) : Reg K :=
  match r.lookupExpected bell hand with
  | none => r
  | some (row, place) =>
    let ebt := r.blowTime row place
    let w0 : K :=
      match r.start with
      | .fin s => wt (realTimeToBlowTime (r.line s) realTime - ebt)
      | .inf => Num.ofNat 0      -- diff = -inf, exp(-inf) = 0
    let r1 := if Num.eqb ebt (Num.ofNat 0) then { r with start := .fin realTime } else r
    let w := if r1.dataSet.length ≤ 1 then Num.ofNat 1 else w0
    let r2 := r1.addDataPoint reg row place realTime w
    { r2 with expected := r2.expected.filter (fun p => p.1 != (bell, hand)) }

/-- First half of `initialise_line`: new stage, empty data set, interval from the peal speed. -/
def Reg.resetForTouch {K} [Num K] (r : Reg K) (stage : Nat) : Reg K :=
  { r with stage := stage, dataSet := [], interval := pealSpeedToBlowInterval r.pealSpeed stage }

/-- `initialise_line(stage, user_controls_treble, start_time, n_user)` -/
def Reg.initialiseLine {K} [Num K] (r : Reg K) (reg : List (K × K × K) → K × K) (stage : Nat)
    (userTreble : Bool) (startTime : K) : Reg K :=
  if !userTreble then
    { (r.resetForTouch stage).addDataPoint reg 0 0 startTime (Num.ofNat 1) with start := .fin startTime }
  else { r.resetForTouch stage with start := .inf }

/-- `change_setting("peal_speed", v, real_time)` for a positive integer `v`; the line is bent at the
current position. -/
def Reg.changePealSpeed {K} [Num K] (r : Reg K) (newSpeed : K) (realTime : K) : Reg K :=
  let r1 := { r with pealSpeed := newSpeed }
  if Num.eqb r.interval (Num.ofNat 0) then r1
  else
    let ni := pealSpeedToBlowInterval newSpeed r.stage
    match r.start with
    | .fin s =>
      let cur := realTimeToBlowTime (r.line s) realTime
      { r1 with interval := ni, start := .fin (realTime - cur * ni) }
    | .inf => { r1 with interval := ni }   -- -inf * ni: stays a non-finite sentinel (modelled as inf)

/-! ### WaitForUserRhythm -/

structure WaitR (K : Type) where
  currentHand : Bool
  expectedHand : List Nat
  expectedBack : List Nat
  earlyHand : List Nat
  earlyBack : List Nat
  delay : K
  shouldReturn : Bool

def WaitR.init {K} [Num K] : WaitR K :=
  { currentHand := true, expectedHand := [], expectedBack := [], earlyHand := [], earlyBack := [],
    delay := Num.ofNat 0, shouldReturn := false }

def WaitR.expected {K} (w : WaitR K) (hand : Bool) : List Nat := if hand then w.expectedHand else w.expectedBack
def WaitR.early {K} (w : WaitR K) (hand : Bool) : List Nat := if hand then w.earlyHand else w.earlyBack
def WaitR.setExpected {K} (w : WaitR K) (hand : Bool) (l : List Nat) : WaitR K :=
  if hand then { w with expectedHand := l } else { w with expectedBack := l }
def WaitR.setEarly {K} (w : WaitR K) (hand : Bool) (l : List Nat) : WaitR K :=
  if hand then { w with earlyHand := l } else { w with earlyBack := l }

def setAdd (l : List Nat) (b : Nat) : List Nat := if l.contains b then l else l ++ [b]
def setDel (l : List Nat) (b : Nat) : List Nat := l.filter (· != b)

/-- `expect_bell` (outer part) -/
def WaitR.expect {K} (w : WaitR K) (bell : Nat) (hand : Bool) : WaitR K :=
  let w1 :=
    if hand != w.currentHand then
      (({ w with currentHand := hand }).setExpected hand []).setEarly (!hand) []
    else w
  if (w1.early hand).contains bell then w1 else w1.setExpected hand (setAdd (w1.expected hand) bell)

/-- `on_bell_ring` (outer part, after the inner rhythm was told) -/
def WaitR.onBellRing {K} (w : WaitR K) (bell : Nat) (hand : Bool) : WaitR K :=
  if hand == w.currentHand then
    let w1 := w.setExpected w.currentHand (setDel (w.expected w.currentHand) bell)
    w1.setEarly (!w1.currentHand) (setDel (w1.early (!w1.currentHand)) bell)
  else w.setEarly (!w.currentHand) (setAdd (w.early (!w.currentHand)) bell)

/-- `initialise_line` (outer part: clears everything; the 2·sleep_time sleep is done by the World) -/
def WaitR.initialise {K} (w : WaitR K) : WaitR K :=
  { w with expectedHand := [], expectedBack := [], earlyHand := [], earlyBack := [], currentHand := true }

end Wheatley
