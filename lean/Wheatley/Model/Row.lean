/-
Model of `wheatley/row_generation/row_generator.py: permute`, `helpers.py: rounds,
generate_starting_row` and `bell.py`.

Mathlib-free, total, executable.  Bells are their 1-based *numbers* (`Bell.number`), rows are lists
of bell numbers, places are 1-based as in the Python code.
-/
namespace Wheatley

abbrev Bell := Nat
abbrev Row := List Nat
abbrev Places := List Nat

/-- `len(BELL_NAMES)`; tied to the source by `Generated/Constants.lean`. -/
def maxBell : Nat := 16

/-- `helpers.rounds(n)`: `[1, …, n]`.  (Python raises for `n > 16`; callers guard that.) -/
def rounds (n : Nat) : Row := (List.range n).map (· + 1)

/--
The `while i < self.stage` loop of `RowGenerator.permute`, as structural recursion over the
not-yet-visited suffix of the row; `i` is the 1-based place of the suffix's head.

Python:
```
while i < self.stage:
    if i in places: i += 1; continue
    new_row[i - 1], new_row[i] = new_row[i], new_row[i - 1]
    i += 2
```
The suffix `[a]` / `[]` with `i < stage` would be an `IndexError` in Python; it cannot happen when
`stage ≤ row.length` (invariant of every generator, proved in `Lemmas`), and the model returns the
suffix unchanged there.
-/
def permuteAux (stage : Nat) (places : Places) : Nat → Row → Row
  | i, a :: b :: rest =>
    if i < stage then
      if i ∈ places then a :: permuteAux stage places (i + 1) (b :: rest)
      else b :: a :: permuteAux stage places (i + 2) rest
    else a :: b :: rest
  | _, l => l

/-- `places and places[0] % 2 == 0` -/
def implicitLead (places : Places) : Bool :=
  match places with
  | [] => false
  | p :: _ => p % 2 == 0

/-- `RowGenerator.permute(row, places)` for a generator of stage `stage`. -/
def permute (stage : Nat) (row : Row) (places : Places) : Row :=
  if implicitLead places then
    match row with
    | [] => []
    | a :: rest => a :: permuteAux stage places 2 rest
  else permuteAux stage places 1 row

/-- Bells `1..n` not already in `acc`, appended in order: the `for i in range(1, n+1)` loop of
`generate_starting_row`. -/
def appendMissing (n : Nat) (acc : Row) : Row :=
  acc ++ ((List.range n).map (· + 1)).filter (fun b => !acc.contains b)

/-- Does a list contain a duplicate (`len(l) > len(set(l))`)? -/
def hasDup : List Nat → Bool
  | [] => false
  | a :: l => l.contains a || hasDup l

/--
`generate_starting_row(n, custom)`.  `custom` is already a list of bell numbers (the characters
were converted by `Bell.from_str`; unknown characters are rejected before this point and are the
`none` result of `Parse.bellsOfString`).  `none` = the `ValueError` for a repeated bell.
-/
def startingRow (n : Nat) (custom : Option Row) : Option Row :=
  match custom with
  | none => some (rounds n)
  | some c => if hasDup c then none else some (appendMissing n c)

end Wheatley
