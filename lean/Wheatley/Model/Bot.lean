/-
Model of `wheatley/tower.py` (the view of the tower and its message handlers) and
`wheatley/bot.py` (callbacks, `start_next_row`, `generate_next_row`, `tick`), callback-atomic:
every handler and each of the two halves of `tick` is one transition.

The rhythm object is *not* part of this model: every call the Bot makes on it is an output
(`Out.r…`), interpreted by the timed `World` (or recorded by a stub in the op-level harness).
-/
import Wheatley.Model.Gen
namespace Wheatley

/-! ### Tower view -/

structure Tower where
  /-- `_bell_state`: `true` = handstroke -/
  bellState : List Bool
  /-- `_assigned_users`: bell number ↦ user id -/
  assigned : List (Nat × Nat)
  /-- `_user_name_map` -/
  userNames : List (Nat × String)
  deriving Repr, BEq, DecidableEq

def Tower.empty : Tower := { bellState := [], assigned := [], userNames := [] }

/-- `d[k] = v` -/
def alSet {β} (l : List (Nat × β)) (k : Nat) (v : β) : List (Nat × β) :=
  (l.filter (fun p => p.1 != k)) ++ [(k, v)]

/-- `del d[k]` (when present) -/
def alErase {β} (l : List (Nat × β)) (k : Nat) : List (Nat × β) := l.filter (fun p => p.1 != k)

def Tower.size (t : Tower) : Nat := t.bellState.length

/-- `get_stroke(bell)`; `none` when the bell is not in the tower. -/
def Tower.getStroke (t : Tower) (bell : Nat) : Option Bool :=
  if bell = 0 then none else t.bellState[bell - 1]?

/-- `is_bell_assigned_to(bell, user_name)` -/
def Tower.isAssignedTo (t : Tower) (bell : Nat) (name : Option String) : Bool :=
  match alGet t.assigned bell with
  | none => name.isNone
  | some id => alGet t.userNames id == name

/-- Values that arrive in `s_wheatley_setting`. -/
inductive SVal where
  | str (s : String) | bool (b : Bool) | int (n : Int) | flt (bits : Nat) | null
  deriving Repr, BEq, DecidableEq

/-- Server messages (one constructor per registered handler). -/
inductive Msg where
  | bellRung (state : List Bool) (who : Nat)
  | globalState (state : List Bool)
  | userEntered (id : Nat) (name : String)
  | userList (users : List (Nat × String))
  | sizeChange (n : Nat)
  | assign (bell : Nat) (user : Nat)            -- user 0 = unassign (`data["user"] or None`)
  | call (c : String)
  | userLeft (id : Nat)
  | setting (kvs : List (String × SVal))
  | rowGen (g : Option Gen)                      -- `none`: `RowGenParseError` (logged, ignored)
  | stopTouch
  deriving Repr, BEq

/-- What the `RingingRoomTower` handler of a message does to the view (before any callback runs). -/
def Tower.apply (t : Tower) : Msg → Tower
  | .bellRung state _ => { t with bellState := state }
  | .globalState state => { t with bellState := state }
  | .userEntered id name => { t with userNames := alSet t.userNames id name }
  | .userList users => { t with userNames := users.foldl (fun m (id, name) => alSet m id name) t.userNames }
  | .sizeChange n =>
    if n != t.size then
      { t with assigned := t.assigned.filter (fun p => p.1 ≤ n), bellState := List.replicate n true }
    else t
  | .assign bell user =>
    if user == 0 then { t with assigned := alErase t.assigned bell }
    else { t with assigned := alSet t.assigned bell user }
  | .userLeft id => { t with assigned := t.assigned.filter (fun p => p.2 != id) }
  | _ => t

/-! ### Bot -/

inductive Out where
  | ring (bell : Nat) (hand : Bool)              -- emit c_bell_rung
  | call (c : String)                            -- emit c_call
  | setIsRinging (b : Bool)                      -- emit c_wheatley_is_ringing
  | rollCall (id : Nat)                          -- emit c_roll_call
  | join                                         -- emit c_join {anonymous_user: true}
  | requestState                                 -- emit c_request_global_state
  | rReturn                                      -- rhythm.return_to_mainloop()
  | rInit (stage : Nat) (userTreble : Bool) (nUser : Nat)   -- rhythm.initialise_line(…, call_time + 3, …)
  | rExpect (bell row place : Nat) (hand : Bool) -- rhythm.expect_bell
  | rBellRing (bell : Nat) (hand : Bool)         -- rhythm.on_bell_ring(bell, stroke, now)
  | rSetting (key : String) (v : SVal)           -- rhythm.change_setting(key, value, now)
  | crash (e : String)                           -- an exception escaped (handler or main loop)
  deriving Repr, BEq, DecidableEq

structure Bot where
  serverId : Option Nat
  upDownIn : Bool
  stopAtRounds : Bool
  callComps : Bool
  userName : Option String
  gen : Gen
  nextGen : Option Gen
  isRinging : Bool
  ringingRounds : Bool
  ringingOpening : Bool
  roundsLeft : Option Nat
  rowsLeftBeforeRounds : Option Nat
  shouldStand : Bool
  rowNumber : Nat
  place : Nat
  openingRow : Row
  rounds : Row
  row : Row
  calls : List String
  tower : Tower
  deriving Repr, BEq

/-- `Bot.__init__` (the tower has no bells yet: `number_of_bells == 0`). -/
def Bot.init (gen : Gen) (upDownIn stopAtRounds callComps : Bool) (userName : Option String)
    (serverId : Option Nat) : Bot :=
  { serverId, upDownIn, stopAtRounds, callComps, userName, gen, nextGen := none,
    isRinging := false, ringingRounds := false, ringingOpening := true, roundsLeft := none,
    rowsLeftBeforeRounds := none, shouldStand := false, rowNumber := 0, place := 0,
    openingRow := gen.startRow, rounds := [], row := [], calls := [], tower := Tower.empty }

def Bot.n (b : Bot) : Nat := b.tower.size
def Bot.hand (b : Bot) : Bool := b.rowNumber % 2 == 0
def Bot.botAssigned (b : Bot) (bell : Nat) : Bool := b.tower.isAssignedTo bell b.userName
def Bot.userAssigned (b : Bot) (bell : Nat) : Bool := !b.botAssigned bell
def Bot.serverMode (b : Bot) : Bool := b.serverId.isSome

/-- `_check_starting_row()` -/
def Bot.checkStartingRow (b : Bot) : Bool := b.openingRow.length == b.n

/-- `_check_number_of_bells(row_gen)` -/
def Bot.checkNumberOfBells (b : Bot) (g : Gen) : Bool := g.stage != 0 && !(b.n < g.stage)

def Bot.makeCalls (b : Bot) (cs : List String) : List Out :=
  if b.callComps then cs.map Out.call else []

/-- `d.get(k) or []` on the early-call map -/
def earlyAt (g : Gen) (k : Nat) : List String := (alGet g.earlyCalls k).getD []

/-- `generate_next_row()` -/
def Bot.generateNextRow (b : Bot) : Bot × List Out :=
  if b.ringingOpening then ({ b with row := b.openingRow }, [])
  else if b.ringingRounds then ({ b with row := b.rounds }, [])
  else
    match b.gen.next b.hand with
    | .ok g' r calls =>
      let r' := if r.length < b.openingRow.length then r ++ b.openingRow.drop r.length else r
      ({ b with gen := g', calls := calls, row := r' }, [])
    | .nullRowGen => (b, [.crash "NullRowGenError"])
    | .keyError => (b, [.crash "KeyError"])

/-- The `for index, bell in enumerate(self._row): self.expect_bell(index, bell)` loop. -/
def Bot.expectAll (b : Bot) : List Out :=
  (b.row.zipIdx.filter (fun (bell, _) => b.userAssigned bell)).map
    (fun (bell, i) => Out.rExpect bell b.rowNumber i b.hand)

/-! #### `start_next_row`: control part

The flags and counters that `start_next_row` reads and writes form a small machine of their own.
It is written once, statement by statement in the order of the source, and the Bot's
`startNextRow` below is defined through it, so every theorem about `ctlStep` is a theorem about the
model of the code. -/

/-- The control fields of the Bot. -/
structure Ctl where
  isRinging : Bool
  ringingRounds : Bool
  ringingOpening : Bool
  roundsLeft : Option Nat
  rowsLeft : Option Nat
  shouldStand : Bool
  rowNumber : Nat
  deriving Repr, DecidableEq

def Bot.ctl (b : Bot) : Ctl :=
  { isRinging := b.isRinging, ringingRounds := b.ringingRounds, ringingOpening := b.ringingOpening,
    roundsLeft := b.roundsLeft, rowsLeft := b.rowsLeftBeforeRounds, shouldStand := b.shouldStand,
    rowNumber := b.rowNumber }

def Bot.withCtl (b : Bot) (c : Ctl) : Bot :=
  { b with isRinging := c.isRinging, ringingRounds := c.ringingRounds, ringingOpening := c.ringingOpening,
           roundsLeft := c.roundsLeft, rowsLeftBeforeRounds := c.rowsLeft, shouldStand := c.shouldStand,
           rowNumber := c.rowNumber }

/-- What `start_next_row` reads besides the control fields. -/
structure CtlIn where
  isFirst : Bool
  /-- `self._row == self._rounds` -/
  justRounds : Bool
  stopAtRounds : Bool
  /-- `row_generator.start_stroke().is_hand()` -/
  startHand : Bool
  /-- `_check_number_of_bells()` for the current generator -/
  fits : Bool

inductive CtlRes where
  | crash                                    -- the stroke `assert` failed
  | ok (c : Ctl) (methodStarted : Bool)
  deriving Repr, DecidableEq

/-- `self._row_number` after the update at the top of `start_next_row`. -/
def nextRowNumber (c : Ctl) (i : CtlIn) : Nat := if i.isFirst then 0 else c.rowNumber + 1

/-- The method is due to start at this boundary (`self._rounds_left_before_method == 0`). -/
def startsNow (c : Ctl) : Bool := c.roundsLeft == some 0

/-- `assert next_stroke == self.row_generator.start_stroke()` fails. -/
def assertFails (c : Ctl) (i : CtlIn) : Bool :=
  startsNow c && (nextRowNumber c i % 2 == 0) != i.startHand

/-- The control fields after `start_next_row`, statement by statement (assertion passed). -/
def ctlNext (c : Ctl) (i : CtlIn) : Ctl :=
  -- self._row_number = 0 / += 1 ;  next_stroke = Stroke.from_index(self._row_number)
  let rowNumber := nextRowNumber c i
  let nextHand := rowNumber % 2 == 0
  -- if self._stop_at_rounds and has_just_rung_rounds and not self._is_ringing_opening_row
  let shouldStand1 := if i.stopAtRounds && i.justRounds && !c.ringingOpening then true else c.shouldStand
  -- if self._rounds_left_before_method == 0: start the method
  let started := startsNow c
  let ringingRounds1 := if started then !i.fits else c.ringingRounds
  let ringingOpening1 := if started then false else c.ringingOpening
  -- if self._rounds_left_before_method is not None: -= 1
  let roundsLeft1 : Option Nat :=
    if started then none else match c.roundsLeft with | some k => some (k - 1) | none => none
  -- if next_stroke.is_hand() and self._should_stand: stand
  let stand := nextHand && shouldStand1
  let shouldStand2 := if stand then false else shouldStand1
  let isRinging2 := if stand then false else c.isRinging
  -- That's all: rounds now / one clear row
  let toRounds := c.rowsLeft == some 0 || (i.justRounds && c.rowsLeft.isSome)
  let rowsLeft2 : Option Nat :=
    if toRounds then none else match c.rowsLeft with | some k => some (k - 1) | none => none
  { isRinging := isRinging2, ringingRounds := if toRounds then true else ringingRounds1,
    ringingOpening := ringingOpening1, roundsLeft := roundsLeft1, rowsLeft := rowsLeft2,
    shouldStand := shouldStand2, rowNumber := rowNumber }

/-- The control flow of `start_next_row`. -/
def ctlStep (c : Ctl) (i : CtlIn) : CtlRes :=
  if assertFails c i then .crash else .ok (ctlNext c i) (startsNow c)

def Bot.ctlIn (b : Bot) (isFirst : Bool) : CtlIn :=
  { isFirst, justRounds := b.row == b.rounds, stopAtRounds := b.stopAtRounds,
    startHand := b.gen.startHand, fits := b.checkNumberOfBells b.gen }

/-- Start of `start_next_row`: `self._place = 0`; the calls of the row just rung are forgotten
(`self._calls = []`), and the early calls for the coming row are set when the countdown is running. -/
def Bot.snrPrep (b0 : Bot) : Bot :=
  match b0.roundsLeft with
  | some k => { b0 with place := 0, calls := earlyAt b0.gen k }
  | none => { b0 with place := 0, calls := [] }

def Bot.resetGen (b : Bot) : Bot := { b with gen := b.gen.reset }

/-- End of `start_next_row`: early return when not ringing, else the next row and the rhythm's
expectations. -/
def Bot.snrFinish (b2 : Bot) (o4 : List Out) : Bot × List Out :=
  if !b2.isRinging then (b2, o4)
  else
    let (b3, o9) := b2.generateNextRow
    if o9.any (fun o => match o with | .crash _ => true | _ => false) then (b3, o4 ++ o9)
    else (b3, o4 ++ o9 ++ b3.expectAll)

/-- `start_next_row(is_first_row)`: the control machine plus the data it moves (place, the early
calls picked for the coming row, the generator reset and the `Stand` call at method start, the next
row and the rhythm's expectations). -/
def Bot.startNextRow (b0 : Bot) (isFirst : Bool) : Bot × List Out :=
  match ctlStep b0.ctl (b0.ctlIn isFirst) with
  | .crash => (b0.snrPrep, [.crash "AssertionError"])
  | .ok c started =>
    let o4 : List Out := if started && !(b0.checkNumberOfBells b0.gen) then b0.makeCalls ["Stand"] else []
    Bot.snrFinish ((if started then b0.snrPrep.resetGen else b0.snrPrep).withCtl c) o4

/-- The assignments of `look_to_has_been_called` between `initialise_line` and `start_next_row`:
the queued generator becomes current, flags and counters are reset, the up-down-in counter is armed. -/
def Bot.armLookTo (b : Bot) : Bot :=
  let g := b.nextGen.getD b.gen
  { b with gen := g, nextGen := none, shouldStand := false, rowsLeftBeforeRounds := none,
           roundsLeft := if !b.upDownIn then none
                         else if g.startHand then some Generated.upDownInHand
                         else some Generated.upDownInBack,
           isRinging := true, ringingRounds := true, ringingOpening := true }

/-- `look_to_has_been_called(call_time)` -/
def Bot.lookTo (b : Bot) : Bot × List Out :=
  match b.openingRow with
  | [] => (b, [.rReturn, .crash "IndexError"])
  | treble :: _ =>
    let nUser := (b.rounds.filter b.userAssigned).length
    let (d, o) := b.armLookTo.startNextRow true
    (d, [.rReturn, .rInit b.n (b.userAssigned treble) nUser] ++ o)

/-- `_on_look_to()`: gated on the opening row and on the generator that will be rung. -/
def Bot.onLookTo (b : Bot) : Bot × List Out :=
  if b.checkStartingRow && b.checkNumberOfBells (b.nextGen.getD b.gen) then b.lookTo else (b, [])

/-- Early calls already missed when `Go` comes late, most distant first. -/
def missedEarly (g : Gen) (left : Nat) : List String :=
  let missed := g.earlyCalls.filter (fun p => left < p.1)
  let sorted := missed.mergeSort (fun p q => p.1 ≥ q.1)
  (sorted.map (·.2)).flatten

/-- `_on_go()` -/
def Bot.onGo (b : Bot) : Bot × List Out :=
  if b.ringingRounds || b.ringingOpening then
    let left := if b.hand == b.gen.startHand then 1 else 0
    let c := { b with roundsLeft := some left }
    (c, c.makeCalls (missedEarly c.gen left))
  else (b, [])

/-- `to_bool(value)`; `none` = `ValueError` (caught, setting unchanged). -/
def toBool? : SVal → Option Bool
  | .str "True" => some true
  | .str "true" => some true
  | .str "False" => some false
  | .str "false" => some false
  | .bool b => some b
  | .int 1 => some true      -- `1 == True` in Python
  | .int 0 => some false
  | _ => none

/-- `_on_setting_change(key, value)` (server mode only) -/
def Bot.onSetting (b : Bot) (key : String) (v : SVal) : Bot × List Out :=
  if key == "use_up_down_in" then
    (match toBool? v with | some x => { b with upDownIn := x } | none => b, [])
  else if key == "stop_at_rounds" then
    (match toBool? v with | some x => { b with stopAtRounds := x } | none => b, [])
  else if key == "call_composition" then
    (match toBool? v with | some x => { b with callComps := x } | none => b, [])
  else (b, [.rSetting key v])

/-- `Bot._on_size_change()` (the tower view has already been updated) -/
def Bot.onSizeChange (b : Bot) : Bot × List Out :=
  match startingRow b.n b.gen.customStart with
  | none => (b, [.crash "ValueError"])
  | some op =>
    let c : Bot := { b with openingRow := op, rounds := Wheatley.rounds b.n }
    let ng := match c.nextGen with
      | some g => if c.checkNumberOfBells g then some g else none
      | none => none
    ({ c with nextGen := ng }, [])

def Bot.onCall (b : Bot) (c : String) : Bot × List Out :=
  if c == Generated.call_LOOK_TO then b.onLookTo
  else if c == Generated.call_GO then b.onGo
  else if c == Generated.call_BOB then ({ b with gen := b.gen.setBob }, [])
  else if c == Generated.call_SINGLE then ({ b with gen := b.gen.setSingle }, [])
  else if c == Generated.call_THATS_ALL then ({ b with rowsLeftBeforeRounds := some 1 }, [])
  else if c == Generated.call_ROUNDS then ({ b with ringingOpening := true }, [])
  else if c == Generated.call_STAND then ({ b with shouldStand := true }, [])
  else (b, [])

def foldSettings (b : Bot) : List (String × SVal) → Bot × List Out
  | [] => (b, [])
  | (k, v) :: rest =>
    let (b1, o1) := b.onSetting k v
    let (b2, o2) := foldSettings b1 rest
    (b2, o1 ++ o2)

/-- One server message delivered to its handler(s): the `RingingRoomTower` handler updates the
view (`Tower.apply`) and then runs the Bot's callbacks. -/
def Bot.onMsg (b0 : Bot) (m : Msg) : Bot × List Out :=
  let b : Bot := { b0 with tower := b0.tower.apply m }
  match m with
  | .bellRung _ who =>
    match b.tower.getStroke who with
    | none => (b, [])
    | some newStroke => if b.userAssigned who then (b, [.rBellRing who (!newStroke)]) else (b, [])
  | .globalState _ => b.onSizeChange
  | .sizeChange n => if n != b0.n then b.onSizeChange else (b, [])
  | .call c => b.onCall c
  | .setting kvs => if b.serverMode then foldSettings b kvs else (b, [])
  | .rowGen g =>
    if b.serverMode then
      match g with
      | some g => ({ b with nextGen := some g }, [])
      | none => (b, [])
    else (b, [])
  | .stopTouch =>
    if b.serverMode then ({ b with isRinging := false }, [.setIsRinging false, .rReturn]) else (b, [])
  | _ => (b, [])

/-- First half of `tick()`: the bell of this place and who controls it, sampled *before* the
rhythm wait.  `none` = `IndexError`. -/
def Bot.tickBegin (b : Bot) : Option (Nat × Bool) :=
  match b.row[b.place]? with
  | some bell => some (bell, b.userAssigned bell)
  | none => none

/-- `ring_bell(bell, self.stroke)`: refuses unless the view's stroke of the bell is the row's. -/
def Bot.ringBell (b : Bot) (bell : Nat) : List Out :=
  match b.tower.getStroke bell with
  | some s => if s == b.hand then [.ring bell s] else []
  | none => []

/-- Second half of `tick()`, after the rhythm wait returned. -/
def Bot.tickEnd (b : Bot) (bell : Nat) (userControlled : Bool) : Bot × List Out :=
  let o1 := if userControlled then [] else b.ringBell bell
  let o2 := if b.place == 0 then b.makeCalls b.calls else []
  let b1 := { b with place := b.place + 1 }
  if b1.place ≥ min b1.n b1.row.length then
    let (b2, o3) := b1.startNextRow false
    (b2, o1 ++ o2 ++ o3)
  else (b1, o1 ++ o2)

end Wheatley
