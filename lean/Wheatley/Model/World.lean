/-
The timed world: Wheatley's main thread (`Bot.main_loop` → `tick` → the rhythm's wait loops) as a
program-counter machine, the socket thread as timed message deliveries, and a clock.

Delivery rule (the one the Python virtual clock implements): when the main thread sleeps for `d`,
every queued message with time `≤ now + d` is delivered in order, each at its own time (the clock
never runs backwards); then the clock is set to `now + d` unless it is already later.  A `sleep`
made *inside* a handler (the `2 * sleep_time` pause of `WaitForUserRhythm.initialise_line`) just
advances the clock.
-/
import Wheatley.Model.Bot
import Wheatley.Model.Rhythm
namespace Wheatley

open Generated

/-- The rhythm object handed to the Bot. -/
structure Rh (K : Type) where
  reg : Reg K
  /-- `some`: a `WaitForUserRhythm` wraps the regression rhythm -/
  wait : Option (WaitR K)
  /-- `some w`: the harness's stub rhythm (`wait_for_bell_time` = `sleep(w)`, everything else ignored) -/
  stub : Option K

/-- Program counter of the main thread; every constructor is "just woke up from the sleep at …"
or a loop head. -/
inductive PC (K : Type) where
  | waitLoaded (iteration : Nat) (lookToTime : Option K)
  | outerTop
  | idleCheck
  | idleSlept
  | ringCheck
  | pullOff (bell : Nat) (uc hand : Bool)
  | innerSlept (bell : Nat) (uc hand : Bool)
  | userPoll (bell : Nat) (uc hand : Bool) (d : K)
  | tickSlept
  | done
  deriving Repr

/-- A timed observable: what Wheatley sent to the server, or a call it made on its rhythm object. -/
structure Obs (K : Type) where
  t : K
  out : Out

/-- A Look To handler asleep inside `WaitForUserRhythm.initialise_line` (on the socket thread): the
arguments it has already evaluated. -/
structure Susp (K : Type) where
  callTime : K
  stage : Nat
  userTreble : Bool
  nUser : Nat

/-- What the socket thread does next: handle a message, or wake the sleeping handler up. -/
inductive Ev where
  | msg (m : Msg)
  | resume

structure World (K : Type) where
  now : K
  bot : Bot
  rh : Rh K
  pc : PC K
  lastActivity : K
  obs : List (Obs K)            -- most recent first
  crashed : Option String       -- exception that killed the main loop
  handlerCrashes : List String  -- exceptions that escaped a handler (socket thread)
  exited : Bool                 -- main_loop returned (inactivity)
  tape : List (K × K)           -- the implementation's numpy regression results, in order
  maxDev : K                    -- largest |tape - own closed form| seen
  suspended : Option (Susp K) := none   -- the socket thread is asleep inside a Look To handler

variable {K : Type} [Num K]

def absK (x : K) : K := if x < Num.ofNat 0 then -x else x
def maxK (a b : K) : K := if a < b then b else a

def W0 : K := Num.ofNat 0

/-- Run one regression-using call on the rhythm with the tape head as the regression result. -/
def World.withReg (w : World K) (f : (List (K × K × K) → K × K) → Reg K) : World K :=
  let h? := w.tape.head?
  let regf : List (K × K × K) → K × K := match h? with
    | some h => fun _ => h
    | none => regress
  let r' := f regf
  if r'.nReg != w.rh.reg.nReg then
    let dev := match h? with
      | some h =>
        -- The implementation solves the *uncentred* normal equations with `numpy.linalg.inv`; its
        -- rounding error grows with their condition number (≈ mean square blow / variance of the
        -- blows) times the size of the times.  The exact fit (`lastOwn`, centred evaluation) is
        -- compared with it at the newest point and by slope, in units of that error bound, so that
        -- the figure reported is dimensionless ("how many times the rounding the algorithm admits").
        let d := maxK (absK ((h.1 + h.2 * r'.lastX) - (r'.lastOwn.1 + r'.lastOwn.2 * r'.lastX)))
                      (absK (h.2 - r'.lastOwn.2))
        let z : K := Num.ofNat 0
        let s0 := r'.dataSet.foldl (fun a (_, _, w) => a + w) z
        let s1 := r'.dataSet.foldl (fun a (b, _, w) => a + w * b) z
        let s2 := r'.dataSet.foldl (fun a (b, _, w) => a + w * b * b) z
        let cond := maxK (Num.ofNat 1) (s0 * s2 / (s0 * s2 - s1 * s1))
        let size := maxK (Num.ofNat 1) (absK (h.1 + h.2 * r'.lastX))
        d / (cond * size) * Num.ofNat 4503599627370496        -- 2^52
      | none => W0
    { w with rh := { w.rh with reg := r' }, tape := w.tape.tail, maxDev := maxK w.maxDev dev }
  else { w with rh := { w.rh with reg := r' } }

def World.delay (w : World K) : K :=
  match w.rh.wait with
  | some wr => wr.delay
  | none => W0

/-- Interpret one output of the Bot: record it, and apply rhythm calls to the rhythm object. -/
def World.applyOut (wt : K → K) (callTime : K) (w : World K) (o : Out) : World K :=
  let w := { w with obs := { t := w.now, out := o } :: w.obs }
  -- `look_to_has_been_called` begins with `self._last_activity_time = time.time()`
  let w := match o with
    | .rInit _ _ _ => { w with lastActivity := w.now }
    | _ => w
  match w.rh.stub with
  | some _ => w
  | none =>
    match o with
    | .rReturn =>
      { w with rh := { w.rh with reg := { w.rh.reg with shouldReturn := true },
                                 wait := w.rh.wait.map (fun x => { x with shouldReturn := true }) } }
    | .rInit stage ut _ =>
      let startTime := callTime + Num.ofQ lookToDuration
      match w.rh.wait with
      | some wr =>
        let w1 := { w with rh := { w.rh with wait := some wr.initialise },
                           now := w.now + (Num.ofNat 2 * Num.ofQ waitSleepTime) }
        w1.withReg (fun regf => w1.rh.reg.initialiseLine regf stage ut (startTime - wr.delay))
      | none => w.withReg (fun regf => w.rh.reg.initialiseLine regf stage ut startTime)
    | .rExpect bell row place hand =>
      { w with rh := { w.rh with reg := w.rh.reg.expect bell row place hand,
                                 wait := w.rh.wait.map (fun x => x.expect bell hand) } }
    | .rBellRing bell hand =>
      let w1 := w.withReg (fun regf => w.rh.reg.onBellRing wt regf bell hand (w.now - w.delay))
      { w1 with rh := { w1.rh with wait := w1.rh.wait.map (fun x => x.onBellRing bell hand) } }
    | .rSetting key v =>
      if key == "peal_speed" then
        match v with
        | .int n => if 0 < n then
            { w with rh := { w.rh with reg := w.rh.reg.changePealSpeed (Num.ofNat n.toNat) (w.now - w.delay) } }
          else w
        | _ => w
      else if key == "inertia" then
        match v with
        | .int n => if 0 ≤ n ∧ n ≤ 1 then
            { w with rh := { w.rh with reg := { w.rh.reg with preferredInertia := Num.ofNat n.toNat } } }
          else w
        | _ => w
      else w
    | _ => w

def isCrash : Out → Option String
  | .crash e => some e
  | _ => none

/-- Deliver one message to its handler at the current time (the whole handler runs). -/
def World.deliverMsg (wt : K → K) (w : World K) (m : Msg) : World K :=
  let (b', outs) := w.bot.onMsg m
  let w1 := { w with bot := b' }
  let w2 := outs.foldl (World.applyOut wt w.now) w1
  match outs.findSome? isCrash with
  | some e => { w2 with handlerCrashes := w2.handlerCrashes ++ [e] }
  | none => w2

/-- Will this message's handler go to sleep on the socket thread?  Only an accepted Look To does, and
only when the waiting rhythm wraps the regression (`WaitForUserRhythm.initialise_line` sleeps 20 ms
"to clear any current waiting loops").  The result holds the arguments of `initialise_line`, which are
evaluated before the sleep. -/
def World.lookToSuspends (w : World K) (m : Msg) : Option (Susp K × WaitR K) :=
  match m with
  | .call c =>
    if c == Generated.call_LOOK_TO then
      match w.rh.stub, w.rh.wait with
      | none, some wr =>
        let b := w.bot
        if b.checkStartingRow && b.checkNumberOfBells (b.nextGen.getD b.gen) then
          match b.openingRow with
          | treble :: _ =>
            some ({ callTime := w.now, stage := b.n, userTreble := b.userAssigned treble,
                    nUser := (b.rounds.filter b.userAssigned).length }, wr)
          | [] => none
        else none
      | _, _ => none
    else none
  | _ => none

/-- First part of that handler, up to the sleep: `return_to_mainloop()`, the arguments, and the outer
half of `initialise_line` (all expectations forgotten).  The Bot is untouched so far. -/
def World.lookToBegin (w : World K) (s : Susp K) (wr : WaitR K) : World K :=
  { w with
    obs := { t := w.now, out := .rInit s.stage s.userTreble s.nUser } :: { t := w.now, out := .rReturn } :: w.obs,
    rh := { w.rh with reg := { w.rh.reg with shouldReturn := true },
                      wait := some { wr.initialise with shouldReturn := true } },
    lastActivity := w.now,
    suspended := some s }

/-- Second part, after the sleep, with whatever the main thread did meanwhile: the inner line is
initialised with the hold-up *as it is now* … -/
def World.lookToInner (w : World K) (s : Susp K) : World K :=
  match w.rh.wait with
  | some wr => w.withReg (fun regf => w.rh.reg.initialiseLine regf s.stage s.userTreble
                            (s.callTime + Num.ofQ lookToDuration - wr.delay))
  | none => w

/-- … then the rest of `look_to_has_been_called` runs on the Bot *as it is now*. -/
def World.lookToRest (wt : K → K) (w : World K) : World K :=
  let p := w.bot.armLookTo.startNextRow true
  let w2 := p.2.foldl (World.applyOut wt w.now) { w with bot := p.1 }
  match p.2.findSome? isCrash with
  | some e => { w2 with handlerCrashes := w2.handlerCrashes ++ [e] }
  | none => w2

def World.lookToResume (wt : K → K) (w : World K) (s : Susp K) : World K :=
  (({ w with suspended := none } : World K).lookToInner s).lookToRest wt

/-- One step of the socket thread. -/
def World.deliver (wt : K → K) (w : World K) (e : Ev) : World K :=
  match e with
  | .resume =>
    match w.suspended with
    | some s => w.lookToResume wt s
    | none => w
  | .msg m =>
    match w.lookToSuspends m with
    | some (s, wr) => w.lookToBegin s wr
    | none => w.deliverMsg wt m

/-- `sleep(d)` on the main thread: deliver what is due, advance the clock.  Returns the remaining
events; `none` when the run's end time was reached during this sleep. -/
def World.sleep (wt : K → K) (endTime : K) (w : World K) (d : K) (events : List (K × Ev)) :
    World K × List (K × Ev) × Bool :=
  let wake := w.now + d
  let limit := if endTime < wake then endTime else wake
  let rec go (w : World K) : List (K × Ev) → World K × List (K × Ev)
    | [] => (w, [])
    | (t, m) :: rest =>
      if t ≤ limit then
        let w1 := if w.now < t then { w with now := t } else w
        go (World.deliver wt w1 m) rest
      else (w, (t, m) :: rest)
  let (w1, rest) := go w events
  if endTime < wake then (w1, rest, true)
  else ({ w1 with now := if w1.now < wake then wake else w1.now }, rest, false)

/-- The rhythm's `wait_for_bell_time`, up to its first sleep.  Returns the sleep duration and the
program counter to resume at. -/
def World.beginWait (w : World K) (bell : Nat) (uc hand : Bool) : World K × K × PC K :=
  match w.rh.stub with
  | some d => (w, d, .innerSlept bell uc hand)
  | none =>
    let w1 := match w.rh.wait with
      | some wr => { w with rh := { w.rh with wait := some { wr with currentHand := hand } } }
      | none => w
    match w1.rh.reg.waitPlan (w1.now - w1.delay) w1.bot.rowNumber w1.bot.place uc with
    | .pullOff => (w1, Num.ofQ waitSleepTime, .pullOff bell uc hand)
    | .sleep d => (w1, d, .innerSlept bell uc hand)

inductive StepRes (K : Type) where
  | sleep (d : K)
  | continue
  | stop

/-- `tickEnd` plus bookkeeping of a main-thread crash. -/
def World.finishTick (wt : K → K) (w : World K) (bell : Nat) (uc : Bool) : World K × StepRes K :=
  let (b', outs) := w.bot.tickEnd bell uc
  let w1 := outs.foldl (World.applyOut wt w.now) { w with bot := b' }
  match outs.findSome? isCrash with
  | some e => ({ w1 with crashed := some e, pc := .done }, .stop)
  | none => ({ w1 with pc := .tickSlept }, .sleep (Num.ofQ tickSleep))

/-- After the inner rhythm's wait returned: the `if user_controlled:` polling loop of
`WaitForUserRhythm.wait_for_bell_time` (entered with `delay_for_user = d`). -/
def World.afterInner (wt : K → K) (w : World K) (bell : Nat) (uc hand : Bool) (d : K)
    (justSlept : Bool) : World K × StepRes K :=
  match w.rh.wait with
  | some wr =>
    if uc then
      -- `if self._should_return_to_mainloop: break` is tested after each sleep
      let leave := (justSlept && wr.shouldReturn) || !((wr.expected hand).contains bell)
      if leave then
        let wr1 := if Num.eqb d W0 then wr else { wr with delay := wr.delay + d }
        let w1 := { w with rh := { w.rh with wait := some { wr1 with shouldReturn := false } } }
        w1.finishTick wt bell uc
      else ({ w with pc := .userPoll bell uc hand d }, .sleep (Num.ofQ waitSleepTime))
    else
      let w1 := { w with rh := { w.rh with wait := some { wr with shouldReturn := false } } }
      w1.finishTick wt bell uc
  | none => w.finishTick wt bell uc

/-- One step of the main thread: run until the next `sleep` (or until it ends). -/
def World.mainStep (wt : K → K) (w : World K) : World K × StepRes K :=
  match w.pc with
  | .done => (w, .stop)
  | .waitLoaded it lt =>
    -- `tower.wait_loaded()`: up to 20 polls of 0.1 s for the first bell state; then, in server
    -- mode with `--look-to-time`, `bot.look_to_has_been_called(look_to_time)`; then `main_loop()`
    if it < 20 then
      if !w.bot.tower.bellState.isEmpty then
        match lt with
        | some t =>
          let (b', outs) := w.bot.lookTo
          let w1 := outs.foldl (World.applyOut wt t) { w with bot := b' }
          match outs.findSome? isCrash with
          | some e => ({ w1 with crashed := some e, pc := .done }, .stop)
          | none => ({ w1 with pc := .outerTop }, .continue)
        | none => ({ w with pc := .outerTop }, .continue)
      else ({ w with pc := .waitLoaded (it + 1) lt }, .sleep (Num.ofNat 1 / Num.ofNat 10))
    else ({ w with crashed := some "SocketIOClientError", pc := .done }, .stop)
  | .outerTop => ({ w with lastActivity := w.now, pc := .idleCheck }, .continue)
  | .idleCheck =>
    if !w.bot.isRinging then ({ w with pc := .idleSlept }, .sleep (Num.ofQ idlePoll))
    else
      let outs : List Out := match w.bot.serverId with
        | some id => [.setIsRinging true, .rollCall id]
        | none => []
      (outs.foldl (World.applyOut wt w.now) { w with pc := .ringCheck }, .continue)
  | .idleSlept =>
    if w.bot.serverMode && !w.bot.isRinging && (w.lastActivity + Num.ofQ inactivityExitTime < w.now) then
      ({ w with exited := true, pc := .done }, .stop)
    else ({ w with pc := .idleCheck }, .continue)
  | .ringCheck =>
    if w.bot.isRinging then
      match w.bot.tickBegin with
      | none => ({ w with crashed := some "IndexError", pc := .done }, .stop)
      | some (bell, uc) =>
        let (w1, d, pc) := w.beginWait bell uc w.bot.hand
        ({ w1 with pc := pc }, .sleep d)
    else
      let outs : List Out := if w.bot.serverMode then [.setIsRinging false] else []
      (outs.foldl (World.applyOut wt w.now) { w with pc := .outerTop }, .continue)
  | .pullOff bell uc hand =>
    match w.rh.reg.start with
    | .inf => (w, .sleep (Num.ofQ waitSleepTime))
    | .fin _ => w.afterInner wt bell uc hand W0 false
  | .innerSlept bell uc hand =>
    let w1 := match w.rh.stub with
      | some _ => w
      | none => { w with rh := { w.rh with reg := { w.rh.reg with shouldReturn := false } } }
    w1.afterInner wt bell uc hand W0 false
  | .userPoll bell uc hand d => w.afterInner wt bell uc hand (d + Num.ofQ waitSleepTime) true
  | .tickSlept => ({ w with pc := .ringCheck }, .continue)

/-- Run the world until the end time, the end of the main loop, or the fuel runs out. -/
def World.run (wt : K → K) (endTime : K) : Nat → World K → List (K × Ev) → World K × Bool
  | 0, w, _ => (w, false)
  | fuel + 1, w, events =>
    match w.mainStep wt with
    | (w1, .stop) => (w1, true)   -- main loop over: `with tower` exits and disconnects
    | (w1, .continue) => World.run wt endTime fuel w1 events
    | (w1, .sleep d) =>
      let (w2, rest, ended) := World.sleep wt endTime w1 d events
      if ended then (w2, true) else World.run wt endTime fuel w2 rest

/-- State when `with tower:` has connected: `c_join` and `c_request_global_state` have been sent
(in that order, before anything else) and `wait_loaded()` starts. -/
def World.init (now : K) (bot : Bot) (rh : Rh K) (tape : List (K × K)) (lookToTime : Option K) :
    World K :=
  { now, bot, rh, pc := .waitLoaded 0 lookToTime, lastActivity := now,
    obs := [{ t := now, out := .requestState }, { t := now, out := .join }], crashed := none,
    handlerCrashes := [], exited := false, tape, maxDev := W0 }

end Wheatley
