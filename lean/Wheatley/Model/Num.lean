/-
The numeric interface of the rhythm model.  The model is written once over `Num K`; it is
*executed* at `K = Float` (IEEE doubles, same operation order as the Python code) for the
correspondence check and *proved about* for every linearly ordered field `K` (bridging instance in
`Lemmas/NumField.lean`).
-/
namespace Wheatley

class Num (K : Type) extends Add K, Sub K, Mul K, Div K, Neg K, LT K, LE K where
  ofNat : Nat → K
  decLt : (a b : K) → Decidable (a < b)
  decLe : (a b : K) → Decidable (a ≤ b)
  /-- Python `==` on numbers -/
  eqb : K → K → Bool

instance {K} [Num K] (a b : K) : Decidable (a < b) := Num.decLt a b
instance {K} [Num K] (a b : K) : Decidable (a ≤ b) := Num.decLe a b

instance : Num Float where
  ofNat := Float.ofNat
  decLt := Float.decLt
  decLe := Float.decLe
  eqb a b := a == b

/-- A rational constant given as (numerator, denominator), computed as Python computes the literal:
for the literals in use (`3.0`, `0.01`, `0.001`, `300`) `num / den` in doubles is the literal. -/
def Num.ofQ {K} [Num K] (q : Nat × Nat) : K := Num.ofNat q.1 / Num.ofNat q.2

/-- The regression line and the two parameters the time conversions read (`self.stage`,
`self._handstroke_gap`, `self._start_time`, `self._blow_interval`); `start` is the finite case
(the `inf` sentinel is handled by the rhythm model). -/
structure Line (K : Type) where
  stage : Nat
  gap : K
  start : K
  interval : K

end Wheatley
