/-
Model of the command-line value parsers: `parsing.py: parse_peal_speed, parse_call,
parse_start_row, parse_place_notation` and `complib_composition_generator.py: parse_arg`, over
`List Char`.

Python's `int()`, `str.strip()` and `str.isdecimal()` depend on Unicode tables; they are modelled
relative to two parameters — `dv : Char → Option Nat` (decimal value of a character with the Unicode
`Nd` property) and `sp : Char → Bool` (Python's white space) — which the driver instantiates with
tables generated from the running interpreter (`Generated/CharTables.lean`).
-/
import Wheatley.Model.Gen
namespace Wheatley.Parse

inductive PRes (α : Type) where
  | ok (v : α)
  | own (err : String)      -- the option's own descriptive error class
  | crash (exc : String)    -- any other exception
  deriving Repr, BEq

def PRes.isCrash {α} : PRes α → Bool
  | .crash _ => true
  | _ => false

structure Chars where
  dv : Char → Option Nat
  sp : Char → Bool

/-- `s.strip()` -/
def strip (c : Chars) (s : List Char) : List Char :=
  ((s.dropWhile c.sp).reverse.dropWhile c.sp).reverse

/-- Digits with single underscores between them (`PyLong_FromString`, base 10), most significant
first; `acc` is the value so far, `prevDigit` whether the previous character was a digit. -/
def digitsVal (c : Chars) : List Char → Nat → Bool → Option Nat
  | [], acc, prevDigit => if prevDigit then some acc else none
  | ch :: rest, acc, prevDigit =>
    if ch = '_' then
      if prevDigit then
        match rest with
        | [] => none
        | _ => digitsVal c rest acc false
      else none
    else
      match c.dv ch with
      | some d => digitsVal c rest (acc * 10 + d) true
      | none => none

/-- `int(s)`; `none` = `ValueError`. -/
def pyInt (c : Chars) (s : List Char) : Option Int :=
  match strip c s with
  | '-' :: r => (digitsVal c r 0 false).map (fun n => -(n : Int))
  | '+' :: r => (digitsVal c r 0 false).map (fun n => (n : Int))
  | r => (digitsVal c r 0 false).map (fun n => (n : Int))

def endsWith (ch : Char) (s : List Char) : Bool := s.getLast? == some ch

/-- `parse_peal_speed` -/
def pealSpeed (c : Chars) (s : List Char) : PRes Int :=
  let s1 := strip c s
  let s2 := if endsWith 'm' s1 then s1.dropLast else s1
  if s2.contains 'h' then
    match splitOn 'h' s2 with
    | [hs, ms] =>
      match pyInt c (strip c hs) with
      | none => .own "PealSpeedParseError"
      | some hours =>
        if hours < 0 then .own "PealSpeedParseError" else
        let ms' := strip c ms
        match (if ms'.isEmpty then some 0 else pyInt c ms') with
        | none => .own "PealSpeedParseError"
        | some minutes =>
          if minutes < 0 then .own "PealSpeedParseError"
          else if 59 < minutes then .own "PealSpeedParseError"
          else .ok (hours * 60 + minutes)
    | _ => .own "PealSpeedParseError"
  else
    match pyInt c s2 with
    | none => .own "PealSpeedParseError"
    | some minutes => if minutes < 0 then .own "PealSpeedParseError" else .ok minutes

/-- One `/`-separated segment of a call definition: (location, notation). -/
def callSegment (c : Chars) (seg : List Char) : PRes (Int × List Char) :=
  let located : PRes (Int × List Char) :=
    if seg.contains ':' then
      match splitOn ':' seg with
      | [ls, ps] =>
        match pyInt c (strip c ls) with
        | none => .own "CallParseError"
        | some loc => .ok (loc, strip c ps)
      | _ => .own "CallParseError"
    else .ok (0, strip c seg)
  match located with
  | .ok (loc, pn) =>
    if pn.isEmpty then .own "CallParseError"
    else if !validPN upperAscii pn then .own "CallParseError"
    else .ok (loc, pn)
  | e => e

/-- `parse_call`: the segments in order; a repeated location is an error. -/
def callDef (c : Chars) (s : List Char) : PRes (List (Int × List Char)) :=
  let rec go : List (List Char) → List (Int × List Char) → PRes (List (Int × List Char))
    | [], acc => .ok acc
    | seg :: rest, acc =>
      match callSegment c seg with
      | .ok (loc, pn) =>
        if acc.any (fun p => p.1 == loc) then .own "CallParseError" else go rest (acc ++ [(loc, pn)])
      | .own e => .own e
      | .crash e => .crash e
  go (splitOn '/' s) []

/-- `parse_start_row`: the length of the row when it is a permutation of `1..max`. -/
def startRow (s : List Char) : PRes Nat :=
  match bellsOfString s with
  | none => .own "StartRowParseError"
  | some bells =>
    let mx := bells.foldl max 0
    let rec go : List Nat → List Nat → PRes Nat
      | [], remaining => if remaining.isEmpty then .ok s.length else .own "StartRowParseError"
      | b :: rest, remaining =>
        if remaining.contains b then go rest (remaining.erase b) else .own "StartRowParseError"
    go bells ((List.range mx).map (· + 1))

/-- `str.isdecimal()` -/
def isDecimal (c : Chars) (s : List Char) : Bool := !s.isEmpty && s.all (fun ch => (c.dv ch).isSome)

/-- `parse_place_notation` -/
def placeNotation (c : Chars) (s : List Char) : PRes (Nat × List Char) :=
  match splitOn ':' s with
  | [stagePart, pn] =>
    if !isDecimal c stagePart then .own "PlaceNotationError"
    else
      match pyInt c stagePart with
      | none => .crash "ValueError"
      | some stage =>
        if stage < 1 || (maxBell : Int) < stage then .own "PlaceNotationError"
        else if !validPN upperAscii pn then .own "PlaceNotationError"
        else .ok (stage.toNat, pn)
  | _ => .own "PlaceNotationError"

/-! ### `parse_arg` (composition reference) -/

def isInfix (pat : List Char) : List Char → Bool
  | [] => pat.isEmpty
  | c :: cs => pat.isPrefixOf (c :: cs) || isInfix pat cs

/-- The URL handed to `urlparse`. -/
def compUrl (arg : List Char) : List Char :=
  let url := if isInfix "complib.org".toList arg then arg else "https://complib.org/composition/".toList ++ arg
  if "http".toList.isPrefixOf url then url else "https://".toList ++ url

/-- The rest of `parse_arg` given what `urlparse(url)` returned (`none` = it raised `ValueError`):
(composition id, access key, substituted method id). -/
def compArg (c : Chars) (parsed : Option (List Char × List Char)) :
    PRes (Int × Option (List Char) × Option Int) :=
  match parsed with
  | none => .own "InvalidComplibURLError"
  | some (path, query) =>
    match splitOn '/' path with
    | first :: segs =>
      if !first.isEmpty then .own "InvalidComplibURLError"
      else
        match segs with
        | s0 :: s1 :: _ =>
          if s0 != "composition".toList then .own "InvalidComplibURLError"
          else
            match pyInt c s1 with
            | none => .own "InvalidComplibURLError"
            | some id =>
              let rec go : List (List Char) → Option (List Char) → Option Int →
                  PRes (Int × Option (List Char) × Option Int)
                | [], key, sub => .ok (id, key, sub)
                | q :: qs, key, sub =>
                  match splitOn '=' q with
                  | [k, v] =>
                    let key' := if k = "accessKey".toList then some v else key
                    if k = "substitutedmethodid".toList then
                      match pyInt c v with
                      | none => .own "InvalidComplibURLError"
                      | some m => go qs key' (some m)
                    else go qs key' sub
                  | _ => go qs key sub
              go (splitOn '&' query) none none
        | _ => .own "InvalidComplibURLError"
    | [] => .own "InvalidComplibURLError"

/-! ### `json_to_row_generator` (server mode) -/

/-- JSON values as they arrive in `s_wheatley_row_gen` (numbers restricted to integers). -/
inductive JVal where
  | null
  | bool (b : Bool)
  | int (n : Int)
  | str (s : List Char)
  | arr (xs : List JVal)
  | obj (kvs : List (String × JVal))

instance : Inhabited JVal := ⟨.null⟩

def JVal.get (j : JVal) (k : String) : Option JVal :=
  match j with
  | .obj kvs => (kvs.reverse.find? (fun p => p.1 == k)).map (·.2)
  | _ => none

/-- `int(json["stage"])`; `none` = `ValueError` / `TypeError`. -/
def jInt (c : Chars) : JVal → Option Int
  | .int n => some n
  | .bool b => some (if b then 1 else 0)
  | .str s => pyInt c s
  | _ => none

/-- `json_to_call(name)`: absent ↦ default (`some none`); a dictionary with integer-like keys ↦ the
call definition; anything else ↦ `RowGenParseError` (`none`). -/
def jCall (c : Chars) (j : JVal) (name : String) : Option (Option (List (Int × JVal))) :=
  match j.get name with
  | none => some none
  | some (.obj kvs) =>
    match kvs.mapM (fun (k, v) => (pyInt c k.toList).map (fun i => (i, v))) with
    | some l => some (some l)
    | none => none
  | some _ => none

/-- A call definition whose notations are all strings; `none` = the constructor raised. -/
def callStrings (d : List (Int × JVal)) : Option (List (Int × List Char)) :=
  d.mapM (fun (i, v) => match v with | .str s => some (i, s) | _ => none)

/-- Last-write-wins on repeated integer keys (`call[index] = value`). -/
def dedupCalls {α} (d : List (Int × α)) : List (Int × α) :=
  d.foldl (fun acc p => acc.filter (fun q => q.1 != p.1) ++ [p]) []

/-- `json_to_row_generator` for `"type": "method"`: the generator, or `none` = `RowGenParseError`.
(There is no third outcome: that is the totality theorem.) -/
def rowGenMethod (c : Chars) (j : JVal) : Option Gen :=
  match j.get "stage" with
  | none => none
  | some sv =>
    match jInt c sv with
    | none => none
    | some stage =>
      match j.get "notation" with
      | none => none
      | some nv =>
        match jCall c j "bob", jCall c j "single" with
        | some bob, some single =>
          match nv with
          | .str pn =>
            -- `PlaceNotationGenerator(stage, notation, bob, single)`: any ValueError / TypeError /
            -- AttributeError of the constructor is turned into RowGenParseError
            if stage < 0 then none   -- `rounds(stage)` is empty, `(i-1) % lead_len` still fine: see harness note
            else
              match (bob.map (fun d => callStrings (dedupCalls d))), (single.map (fun d => callStrings (dedupCalls d))) with
              | some none, _ => none
              | _, some none => none
              | b, s => mkPN stage.toNat pn (b.map (·.getD [])) (s.map (·.getD [])) 0 none
          | _ => none
        | _, _ => none

end Wheatley.Parse
