/-
Model of `wheatley/row_generation/helpers.py: convert_pn, valid_pn, convert_bell_string` over
`List Char`, mirroring the regex / strip / replace / split pipeline literally.
-/
import Wheatley.Model.Row
import Wheatley.Generated.Constants
namespace Wheatley

/-- `BELL_NAMES`, regenerated from `wheatley/bell.py` on every run. -/
def bellNames : List Char := Generated.bellNames

/-- `BELL_NAMES.index(c) + 1`, `none` = `ValueError`. -/
def bellOfChar (c : Char) : Option Nat :=
  match bellNames.idxOf? c with
  | some i => some (i + 1)
  | none => none

/-- `[Bell.from_str(c) for c in s]` as bell numbers; `none` = `ValueError`. -/
def bellsOfString (s : List Char) : Option (List Nat) := s.mapM bellOfChar

/-- `str.split(sep)` for a one-character separator: always at least one piece. -/
def splitOn (sep : Char) : List Char → List (List Char)
  | [] => [[]]
  | c :: cs =>
    if c = sep then [] :: splitOn sep cs
    else match splitOn sep cs with
      | [] => [[c]]   -- unreachable
      | p :: ps => (c :: p) :: ps

def isCross (c : Char) : Bool := c = 'x' || c = '-'

/-- Drop the leading run of `.`. -/
def dropDots : List Char → List Char
  | '.' :: cs => dropDots cs
  | l => l

/--
`re.sub("[.]*[x-][.]*", ".-.", s)`: leftmost, greedy.  A match starts at the current position iff
the maximal run of dots there is followed by `x` or `-`; it then also swallows the dots after it.
Fuel = length (each step consumes at least one character).
-/
def subCrossAux : Nat → List Char → List Char
  | 0, l => l
  | _, [] => []
  | n + 1, c :: cs =>
    match dropDots (c :: cs) with
    | d :: rest =>
      if isCross d then '.' :: '-' :: '.' :: subCrossAux n (dropDots rest)
      else c :: subCrossAux n cs
    | [] => c :: subCrossAux n cs

def subCross (s : List Char) : List Char := subCrossAux s.length s

def stripSet : List Char := ['.', '&', '+', ' ']

/-- `s.strip(".&+ ")` -/
def stripPN (s : List Char) : List Char :=
  ((s.dropWhile (stripSet.contains ·)).reverse.dropWhile (stripSet.contains ·)).reverse

/-- `s.replace("..", ".")`: non-overlapping, left to right. -/
def dedupDots : List Char → List Char
  | '.' :: '.' :: cs => '.' :: dedupDots cs
  | c :: cs => c :: dedupDots cs
  | [] => []

/-- The pieces between dots after normalisation (`deduplicated_string`). -/
def pnPieces (s : List Char) : List (List Char) :=
  splitOn '.' (dedupDots (stripPN (subCross s)))

/-- ASCII part of `str.upper()` (the translator checks that no non-ASCII character upper-cases to a
bell name). -/
def upperAscii (c : Char) : Char :=
  if 'a' ≤ c ∧ c ≤ 'z' then Char.ofNat (c.toNat - 32) else c

/-- One piece → one change; `"-"` is the cross `[]`; every symbol is upper-cased before it is looked
up (`convert_bell_string(y.upper())`). `none` = `ValueError`. -/
def convertPiece (p : List Char) : Option Places :=
  if p = ['-'] then some [] else bellsOfString (p.map upperAscii)

def startsWith (c : Char) : List Char → Bool
  | d :: _ => d = c
  | [] => false

/-- `convert_pn` for a string without a comma. -/
def convertBlock (s : List Char) (expectSymmetric : Bool) : Option (List Places) :=
  let symmetric := if expectSymmetric then !startsWith '+' s else startsWith '&' s
  match (pnPieces s).mapM convertPiece with
  | none => none
  | some conv => some (if symmetric then conv ++ conv.dropLast.reverse else conv)

/-- `convert_pn(pn_str)`; `none` = `ValueError` (unknown bell symbol). -/
def convertPN (s : List Char) : Option (List Places) :=
  if s.contains ',' then
    match (splitOn ',' s).mapM (convertBlock · true) with
    | none => none
    | some bs => some bs.flatten
  else convertBlock s false

/-- Is `y.upper() in BELL_NAMES`?  `upperBell` abstracts the interpreter's `str.upper`. -/
def validPiece (up : Char → Char) (p : List Char) : Bool :=
  p = ['-'] || p.all (fun y => bellNames.contains (up y))

def validBlock (up : Char → Char) (s : List Char) : Bool :=
  (pnPieces s).all (validPiece up)

/-- `valid_pn(pn_str)` (the comma case recurses on comma-free parts, so one level suffices). -/
def validPN (up : Char → Char) (s : List Char) : Bool :=
  if s.contains ',' then (splitOn ',' s).all (validBlock up) else validBlock up s

end Wheatley
