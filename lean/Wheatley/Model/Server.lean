/-
Interleaving model for the server-mode handlers (C19).

* `Act`: atomic actions on the (re-entrant) lock `next_row_generator_lock` and on the two protected
  cells `next_row_generator` / `row_generator`.  The action sequences of the real handlers are
  generated from the source on every run (`Generated/HandlerIR.lean`).
* `Sys`: any number of threads, each running such a sequence; a step of thread `t` is enabled iff it
  is not an `acq` of a lock somebody else holds.
* `Cells` + critical sections: what the three handlers' critical sections *do* to the cells.
-/
namespace Wheatley.Server

inductive Act where
  | acq | rel | rdNext | wrNext | rdGen | wrGen | branch
  deriving Repr, BEq, DecidableEq

/-- Lock depth of a thread after running a prefix of its program (re-entrant acquisitions nest). -/
def depthAfter : List Act → Nat → Nat
  | [], d => d
  | .acq :: rest, d => depthAfter rest (d + 1)
  | .rel :: rest, d => depthAfter rest (d - 1)
  | _ :: rest, d => depthAfter rest d

/-- **Lock discipline** of one handler: every access to `next_row_generator` and every write of
`row_generator` happens while the lock is held; releases match acquisitions; the lock is not held at
the end.  (Reads of `row_generator` outside the lock are tolerated: they feed log lines and the
opening row, never the protected cells.) -/
def disciplined : List Act → Nat → Bool
  | [], d => d == 0
  | .acq :: rest, d => disciplined rest (d + 1)
  | .rel :: rest, d => d != 0 && disciplined rest (d - 1)
  | .rdNext :: rest, d => d != 0 && disciplined rest d
  | .wrNext :: rest, d => d != 0 && disciplined rest d
  | .wrGen :: rest, d => d != 0 && disciplined rest d
  | _ :: rest, d => disciplined rest d

/-- Does this action touch a protected cell in a way that needs the lock? -/
def Act.protected : Act → Bool
  | .rdNext | .wrNext | .wrGen => true
  | _ => false

/-- A thread: what it has still to run, and how many times it holds the lock. -/
structure Thread where
  todo : List Act
  depth : Nat
  deriving Repr, DecidableEq

/-- The system: the threads and the lock's owner. -/
structure Sys where
  threads : List Thread
  owner : Option Nat
  deriving Repr, DecidableEq

/-- One step of thread `t` (an index into `threads`); `none` if the thread is finished or blocked. -/
def Sys.step (s : Sys) (t : Nat) : Option Sys :=
  match s.threads[t]? with
  | none => none
  | some th =>
    match th.todo with
    | [] => none
    | .acq :: rest =>
      if s.owner == none || s.owner == some t then
        some { threads := s.threads.set t { todo := rest, depth := th.depth + 1 }, owner := some t }
      else none
    | .rel :: rest =>
      -- (releasing a lock one does not hold raises RuntimeError: the thread goes no further)
      if th.depth == 0 then none
      else
        let d := th.depth - 1
        some { threads := s.threads.set t { todo := rest, depth := d },
               owner := if d == 0 then none else s.owner }
    | _ :: rest => some { threads := s.threads.set t { todo := rest, depth := th.depth }, owner := s.owner }

/-- Run a schedule (a list of thread choices); choices that are not enabled are skipped. -/
def Sys.run (s : Sys) : List Nat → Sys
  | [] => s
  | t :: ts => match s.step t with
    | some s' => s'.run ts
    | none => s.run ts

/-! ### What the critical sections do -/

/-- The protected cells plus the tower size they are checked against.  Generators are represented by
the stage they need (0 = the place holder). -/
structure Cells where
  gen : Nat
  next : Option Nat
  size : Nat
  ringing : Bool
  deriving Repr, DecidableEq

def fits (stage size : Nat) : Bool := stage != 0 && !(size < stage)

/-- `_on_row_gen_change`'s critical section: `next_row_generator = <new>`. -/
def csRowGen (g : Nat) (c : Cells) : Cells := { c with next := some g }

/-- The tower handler's part of a size change (not under the lock): the new size. -/
def wrSize (n : Nat) (c : Cells) : Cells := { c with size := n }

/-- `_on_size_change`'s critical section: drop the queued generator iff it no longer fits. -/
def csSize (c : Cells) : Cells :=
  match c.next with
  | some g => if fits g c.size then c else { c with next := none }
  | none => c

/-- `_on_look_to`'s critical section (one re-entrant hold): the gate on the generator that will be
rung, then the swap. -/
def csLookTo (c : Cells) : Cells :=
  if fits (c.next.getD c.gen) c.size then { c with gen := c.next.getD c.gen, next := none, ringing := true }
  else c

/-- The whole size-change handler at critical-section granularity: nothing at all when the size is
unchanged, else the tower update followed by the critical section. -/
def sizeChange (n : Nat) (c : Cells) : Cells := if n = c.size then c else csSize (wrSize n c)

end Wheatley.Server
