/-
Interleaving model for the server-mode handlers (C19): atomic actions on the lock
`next_row_generator_lock` and on the two shared cells `next_row_generator`, `row_generator`.
The action sequences of the real handlers are generated from the source (`Generated/HandlerIR`).
-/
namespace Wheatley.Server

inductive Act where
  | acq | rel | rdNext | wrNext | rdGen | wrGen | branch
  deriving Repr, BEq, DecidableEq

end Wheatley.Server
