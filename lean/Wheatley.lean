import Wheatley.Model.Row
import Wheatley.Model.PN
import Wheatley.Model.Gen
