/- The `cli` request kind: the console command line (`Model/Cli.lean`). -/
import DriverLib.Json
import DriverLib.Gens
import DriverLib.ParseDrv
import Wheatley.Model.Cli
open Lean Wheatley Wheatley.Parse Wheatley.Cli

namespace Drv

def decodeOpt (j : Json) : R Opt := do
  let parts ← asArr j
  match parts with
  | [n] =>
    match (← asStr n) with
    | "udi" => return .udi
    | "sar" => return .sar
    | "handbell" => return .handbell
    | "no_calls" => return .noCalls
    | "keep_going" => return .keepGoing
    | "wait" => return .wait
    | o => throw s!"unknown switch {o}"
  | [n, v] =>
    match (← asStr n) with
    | "comp" => return .comp (← asChars v)
    | "method" => return .method (← asChars v)
    | "pn" => return .pn (← asChars v)
    | "bob" => return .bob (← asChars v)
    | "single" => return .single (← asChars v)
    | "start_index" => return .startIndex (← asInt v)
    | "start_row" => return .startRow (← asChars v)
    | "inertia" => return .inertia (← asNat v)
    | "peal_speed" => return .pealSpeed (← asChars v)
    | "gap" => return .gap (← asNat v)
    | "max_bells" => return .maxBells (← asInt v)
    | "name" => return .name (← asChars v)
    | o => throw s!"unknown option {o}"
  | _ => throw "option shape"

def jCallDef (d : List (Int × List Char)) : Json := jArr (d.map (fun (i, p) => jArr [jInt i, jChars p]))

def jOptChars : Option (List Char) → Json
  | some s => jChars s
  | none => Json.null

def jSource (ops : List Char) : Source → Json
  | .gen g =>
    let (_, evs) := g.runOps (ops.map opOfChar)
    jObj [("kind", Json.str "gen"), ("start_row", jRow g.startRow), ("start_hand", Json.bool g.startHand),
          ("stage", jNat g.stage), ("outs", jArr (evs.map jEv))]
  | .comp id key sub =>
    jObj [("kind", Json.str "comp"), ("id", jInt id), ("key", jOptChars key),
          ("sub", match sub with | some m => jInt m | none => Json.null)]
  | .library title b s sr si =>
    jObj [("kind", Json.str "library"), ("title", jChars title), ("bob", jCallDef b), ("single", jCallDef s),
          ("start_row", jOptChars sr), ("start_index", jInt si)]

def handleCli (j : Json) : R Json := do
  let os ← (← arrF j "opts").mapM decodeOpt
  let ops := match fldOpt j "ops" with
    | some o => (o.getStr?.toOption.getD "").toList
    | none => []
  let parsed : Option (List Char × List Char) ←
    match fldOpt j "urlparse" with
    | some p => do pure (some ((← charsF p "path"), (← charsF p "query")))
    | none => pure none
  match consoleMain realChars os parsed with
  | .usage => return jObj [("out", Json.str "usage")]
  | .exitStartRow => return jObj [("out", Json.str "exit_start_row")]
  | .exitCompStartRow => return jObj [("out", Json.str "exit_comp_start_row")]
  | .exitMethod => return jObj [("out", Json.str "exit_method")]
  | .exitPN => return jObj [("out", Json.str "exit_pn")]
  | .exitPealSpeed => return jObj [("out", Json.str "exit_peal_speed")]
  | .raised cls => return jObj [("out", Json.str "raised"), ("cls", Json.str cls)]
  | .built c =>
    return jObj [("out", Json.str "built"), ("source", jSource ops c.source),
                 ("udi", Json.bool c.udi), ("sar", Json.bool c.sar), ("call_comps", Json.bool c.callComps),
                 ("use_wait", Json.bool c.useWait), ("peal_speed", jInt c.pealSpeed), ("inertia", jNat c.inertia),
                 ("gap", jNat c.gap), ("max_bells", jInt c.maxBells), ("min_bells", jInt c.minBells),
                 ("name", jOptChars c.name)]

def handleServerCli (j : Json) : R Json := do
  let port ← optF asInt j "port"
  let id ← optF asInt j "id"
  let s := serverMain port id
  let c := s.cfg
  return jObj [("url", jChars s.url), ("udi", Json.bool c.udi), ("sar", Json.bool c.sar),
               ("call_comps", Json.bool c.callComps), ("use_wait", Json.bool c.useWait),
               ("peal_speed", jInt c.pealSpeed), ("inertia", jNat c.inertia), ("gap", jNat c.gap),
               ("max_bells", jInt c.maxBells), ("min_bells", jInt c.minBells), ("name", jOptChars c.name),
               ("initial_inertia", jNat s.initialInertia),
               ("server_id", match s.serverId with | some i => jInt i | none => Json.null),
               ("placeholder", Json.bool (match c.source with | .gen g => g.kind == .placeholder | _ => false))]

end Drv
