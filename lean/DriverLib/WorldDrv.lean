/- The `world` request kind: run the timed model at `K = Float` on a recorded message history. -/
import DriverLib.Gens
import Wheatley.Model.World
import Wheatley.Model.Solo
import DriverLib.ParseDrv
open Lean Wheatley

namespace Drv

def asSVal (j : Json) : R SVal :=
  match j with
  | .null => pure .null
  | .bool b => pure (.bool b)
  | .str s => pure (.str s)
  | .num n => if n.exponent == 0 then pure (.int n.mantissa) else pure (.flt 0)
  | _ => throw "setting value"

partial def jvalOfJson : Json → Parse.JVal
  | .null => .null
  | .bool b => .bool b
  | .num n => .int n.mantissa          -- (the harness sends integers only)
  | .str s => .str s.toList
  | .arr xs => .arr (xs.toList.map jvalOfJson)
  | .obj kvs => .obj (kvs.toList.map (fun (k, v) => (k, jvalOfJson v)))

/-- `json_to_row_generator`: `"type": "method"` payloads go through the model `Parse.rowGenMethod`;
for compositions the harness supplies the generator description built from the fetched payload
(`model_gen`), or nothing when the reference itself is malformed.  `none` = `RowGenParseError`. -/
def decodeRowGenJson (j : Json) : R (Option Gen) := do
  match fldOpt j "json" with
  | some raw =>
    match fldOpt raw "type" with
    | some (.str "method") => return Parse.rowGenMethod realChars (jvalOfJson raw)
    | some (.str "composition") =>
      match fldOpt j "model_gen" with
      | some g => decodeGen g
      | none => return none
    | _ => return none
  | none =>
    match fldOpt j "model_gen" with
    | some g => decodeGen g
    | none => return none

def decodeMsg (j : Json) : R Msg := do
  match (← strF j "m") with
  | "bell_rung" => return .bellRung (← asList asBool (← fld j "state")) (← natF j "who")
  | "global_state" => return .globalState (← asList asBool (← fld j "state"))
  | "user_entered" => return .userEntered (← natF j "id") (← strF j "name")
  | "user_list" =>
    let us ← asList (fun u => do return ((← natF u "id"), (← strF u "name"))) (← fld j "users")
    return .userList us
  | "size_change" => return .sizeChange (← natF j "size")
  | "assign" => return .assign (← natF j "bell") (← natF j "user")
  | "call" => return .call (← strF j "call")
  | "user_left" => return .userLeft (← natF j "id")
  | "setting" =>
    let kvs ← asList (fun p => do
      match (← asArr p) with
      | [k, v] =>
        let key ← asStr k
        let sv ← asSVal v
        -- `int("200")` / `int(True)`: the rhythm's `int(value)` on a string or a bool
        let sv' : SVal := match key, sv with
          | "peal_speed", .str s => match Parse.pyInt realChars s.toList with
              | some n => .int n
              | none => .str s
          | "peal_speed", .bool b => .int (if b then 1 else 0)
          | _, v => v
        return (key, sv')
      | _ => throw "setting pair") (← fld j "kvs")
    return .setting kvs
  | "row_gen" => return .rowGen (← decodeRowGenJson j)
  | "stop_touch" => return .stopTouch
  | m => throw s!"unknown message {m}"

def decodeEv (j : Json) : R Ev := do
  match (← strF j "m") with
  | "resume" => return .resume
  | _ => return .msg (← decodeMsg j)

def jSVal : SVal → Json
  | .str s => Json.str s
  | .bool b => Json.bool b
  | .int n => jInt n
  | .flt _ => Json.str "<float>"
  | .null => Json.null

def jOut : Out → Json
  | .ring bell hand => jArr [Json.str "ring", jNat bell, Json.bool hand]
  | .call c => jArr [Json.str "call", Json.str c]
  | .setIsRinging b => jArr [Json.str "is_ringing", Json.bool b]
  | .rollCall id => jArr [Json.str "roll_call", jNat id]
  | .join => jArr [Json.str "join"]
  | .requestState => jArr [Json.str "request_state"]
  | .rReturn => jArr [Json.str "r_return"]
  | .rInit stage ut n => jArr [Json.str "r_init", jNat stage, Json.bool ut, jNat n]
  | .rExpect bell row place hand => jArr [Json.str "r_expect", jNat bell, jNat row, jNat place, Json.bool hand]
  | .rBellRing bell hand => jArr [Json.str "r_bell", jNat bell, Json.bool hand]
  | .rSetting key v => jArr [Json.str "r_setting", Json.str key, jSVal v]
  | .crash e => jArr [Json.str "crash", Json.str e]

/-- `math.exp(-(diff ** 2))` -/
def wtFloat (d : Float) : Float := Float.exp (-(Float.pow d 2.0))

def decodeBot (j : Json) : R (Option Bot) := do
  match (← decodeGen (← fld j "gen")) with
  | none => return none
  | some g =>
    let name ← optF asStr j "user_name"
    let sid ← optF asNat j "server_id"
    return some (Bot.init g (← boolF j "up_down_in") (← boolF j "stop_at_rounds") (← boolF j "call_comps") name sid)

def decodeRh (j : Json) : R (Rh Float) := do
  let kind ← strF j "kind"
  let dummy : Reg Float := Reg.init 1.0 180.0 1.0 4 15 0.0
  if kind == "stub" then
    return { reg := dummy, wait := none, stub := some (← floatF j "w") }
  let maxBells ← intF j "max_bells"
  let minBells : Int := if Generated.minBellsInDataset ≤ maxBells then Generated.minBellsInDataset else maxBells
  let reg : Reg Float := Reg.init (← floatF j "inertia") (Float.ofNat (← natF j "peal_speed")) (← floatF j "gap")
    minBells maxBells (← floatF j "initial_inertia")
  return { reg, wait := if kind == "wait" then some WaitR.init else none, stub := none }

def handleWorld (j : Json) : R Json := do
  match (← decodeBot (← fld j "bot")) with
  | none => return jObj [("err", Json.str "ValueError")]
  | some bot =>
    let rh ← decodeRh (← fld j "rhythm")
    let start ← floatF j "start"
    let endT ← floatF j "end"
    let lt ← optF asFloat j "look_to_time"
    let events ← asList (fun e => do
      match (← asArr e) with
      | [t, m] => return ((← asFloat t), (← decodeEv m))
      | _ => throw "event") (← fld j "events")
    let tape ← asList (fun e => do
      match (← asArr e) with
      | [a, b] => return ((← asFloat a), (← asFloat b))
      | _ => throw "tape") (← fld j "tape")
    let fuel := natFD j "fuel" 2000000
    let w0 : World Float := World.init start bot rh tape lt
    let (w, finished) := World.run wtFloat endT fuel w0 events
    let obs := w.obs.reverse.map (fun o => jArr [jFloat o.t, jOut o.out])
    return jObj [("obs", jArr obs),
                 ("crashed", match w.crashed with | some e => Json.str e | none => Json.null),
                 ("handler_crashes", jStrs w.handlerCrashes),
                 ("exited", Json.bool w.exited), ("finished", Json.bool finished),
                 ("now", jFloat w.now), ("max_dev", jFloat w.maxDev), ("tape_left", jNat w.tape.length),
                 ("delay", jFloat w.delay),
                 ("row_number", jNat w.bot.rowNumber), ("is_ringing", Json.bool w.bot.isRinging)]

/-- The `solo` request kind: the tick loop of C11 (`soloTimes`, the object of the theorem
`C11.solo_closed_form`) evaluated at `Float` for a configuration: the strike times of `rows` whole
rows after `initialise_line(N, False, start)`. -/
def handleSolo (j : Json) : R Json := do
  let n ← natF j "N"
  let rows ← natF j "rows"
  let reg0 : Reg Float := Reg.init (← floatF j "inertia") (Float.ofNat (← natF j "peal_speed")) (← floatF j "gap")
    Generated.minBellsInDataset 15 0.0
  let reg := reg0.initialiseLine regress n false (← floatF j "start")
  let ts := soloTimes reg (← floatF j "now") (rowMajor n rows)
  return jObj [("times", jArr (ts.map jFloat))]

/-- The generated constants as the driver sees them, and the generated arithmetic evaluated at the
given points (`pts`: peal minutes, bells, a, b, t, stage, gap, start, interval, row, place, x). -/
def handleGenerated (j : Json) : R Json := do
  let q (p : Nat × Nat) : Json := jArr [jNat p.1, jNat p.2]
  let pnd (d : List (Int × String)) : Json := jArr (d.map (fun (k, v) => jArr [Json.num (JsonNumber.fromInt k), Json.str v]))
  let rd (d : List (Nat × (String × String))) : Json :=
    jArr (d.map (fun (k, (h, b)) => jArr [jNat k, Json.str h, Json.str b]))
  let pts ← arrF j "pts"
  let evals ← pts.mapM (fun p => do
    let m ← floatF p "m"
    let n ← natF p "n"
    let a ← floatF p "a"
    let b ← floatF p "b"
    let t ← floatF p "t"
    let l : Line Float := { stage := ← natF p "stage", gap := ← floatF p "gap", start := ← floatF p "start",
                            interval := ← floatF p "interval" }
    let row ← natF p "row"
    let place ← natF p "place"
    let x ← floatF p "x"
    return jObj [("interval", jFloat (Generated.pealSpeedToBlowInterval m n)),
                 ("lerp", jFloat (Generated.lerp a b t)),
                 ("inverse_lerp", jFloat (Generated.inverseLerp a b t)),
                 ("index_to_blow_time", jFloat (Generated.indexToBlowTime l row place)),
                 ("blow_time_to_real_time", jFloat (Generated.blowTimeToRealTime l x)),
                 ("index_to_real_time", jFloat (Generated.indexToRealTime l row place)),
                 ("real_time_to_blow_time", jFloat (Generated.realTimeToBlowTime l x))])
  return jObj [
    ("bellNames", Json.str (String.ofList Generated.bellNames)),
    ("stages", jArr (Generated.stages.map (fun (k, v) => jArr [Json.str k, jNat v]))),
    ("defaultBob", pnd Generated.defaultBob), ("defaultSingle", pnd Generated.defaultSingle),
    ("dixonRules", rd Generated.dixonRules), ("dixonBob", rd Generated.dixonBob),
    ("dixonSingle", rd Generated.dixonSingle),
    ("lookToDuration", q Generated.lookToDuration), ("inactivityExitTime", q Generated.inactivityExitTime),
    ("weightRejectionThreshold", q Generated.weightRejectionThreshold),
    ("waitSleepTime", q Generated.waitSleepTime), ("idlePoll", q Generated.idlePoll),
    ("tickSleep", q Generated.tickSleep), ("minBellsInDataset", jNat Generated.minBellsInDataset),
    ("upDownInHand", jNat Generated.upDownInHand), ("upDownInBack", jNat Generated.upDownInBack),
    ("calls", jObj [("LOOK_TO", Json.str Generated.call_LOOK_TO), ("GO", Json.str Generated.call_GO),
                    ("BOB", Json.str Generated.call_BOB), ("SINGLE", Json.str Generated.call_SINGLE),
                    ("THATS_ALL", Json.str Generated.call_THATS_ALL), ("ROUNDS", Json.str Generated.call_ROUNDS),
                    ("STAND", Json.str Generated.call_STAND)]),
    ("evals", jArr evals)]

end Drv
