/- JSON helpers for the line-protocol driver (not part of the model; nothing is proved about it). -/
import Lean.Data.Json
open Lean

namespace Drv

abbrev R := Except String

def fld (j : Json) (k : String) : R Json := j.getObjVal? k
def fldOpt (j : Json) (k : String) : Option Json :=
  match j.getObjVal? k with
  | .ok .null => none
  | .ok v => some v
  | .error _ => none

def asNat (j : Json) : R Nat := j.getNat?
def asInt (j : Json) : R Int := j.getInt?
def asStr (j : Json) : R String := j.getStr?
def asBool (j : Json) : R Bool := j.getBool?
def asArr (j : Json) : R (List Json) := do return (← j.getArr?).toList
def asChars (j : Json) : R (List Char) := do return (← j.getStr?).toList
def asNats (j : Json) : R (List Nat) := do (← asArr j).mapM asNat
def asList {α} (f : Json → R α) (j : Json) : R (List α) := do (← asArr j).mapM f
def asOpt {α} (f : Json → R α) (j : Json) : R (Option α) :=
  match j with
  | .null => pure none
  | v => some <$> f v

def natF (j : Json) (k : String) : R Nat := do asNat (← fld j k)
def intF (j : Json) (k : String) : R Int := do asInt (← fld j k)
def strF (j : Json) (k : String) : R String := do asStr (← fld j k)
def boolF (j : Json) (k : String) : R Bool := do asBool (← fld j k)
def charsF (j : Json) (k : String) : R (List Char) := do asChars (← fld j k)
def arrF (j : Json) (k : String) : R (List Json) := do asArr (← fld j k)
def boolFD (j : Json) (k : String) (d : Bool) : Bool :=
  match fldOpt j k with
  | some v => (asBool v).toOption.getD d
  | none => d
def natFD (j : Json) (k : String) (d : Nat) : Nat :=
  match fldOpt j k with
  | some v => (asNat v).toOption.getD d
  | none => d
def optF {α} (f : Json → R α) (j : Json) (k : String) : R (Option α) :=
  match fldOpt j k with
  | some v => some <$> f v
  | none => pure none

/-- Floats travel as the integer value of their IEEE-754 bit pattern. -/
def asFloat (j : Json) : R Float := do return Float.ofBits (← asNat j).toUInt64
def floatF (j : Json) (k : String) : R Float := do asFloat (← fld j k)
def jFloat (f : Float) : Json := Json.num (JsonNumber.fromNat f.toBits.toNat)

def jNats (l : List Nat) : Json := Json.arr (l.map (fun n => Json.num (JsonNumber.fromNat n))).toArray
def jNat (n : Nat) : Json := Json.num (JsonNumber.fromNat n)
def jInt (n : Int) : Json := Json.num (JsonNumber.fromInt n)
def jStrs (l : List String) : Json := Json.arr (l.map Json.str).toArray
def jArr (l : List Json) : Json := Json.arr l.toArray
def jObj (l : List (String × Json)) : Json := Json.mkObj l

end Drv
