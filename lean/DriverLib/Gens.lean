/- Decoding of generator specifications and the `permute` / `convert` / `gen` request kinds. -/
import DriverLib.Json
import Wheatley.Model.Gen
import Wheatley.Lemmas.RoundTripG
import Wheatley.Lemmas.Change
open Lean Wheatley

namespace Drv

def asCallDef (j : Json) : R (List (Int × List Char)) :=
  asList (fun p => do
    match (← asArr p) with
    | [i, s] => return ((← asInt i), (← asChars s))
    | _ => throw "calldef pair") j

def asRowCalls (j : Json) : R (Row × List String) := do
  match (← asArr j) with
  | [r, c] => return ((← asNats r), (← asList asStr c))
  | _ => throw "row/calls pair"

def asEarly (j : Json) : R (Nat × List String) := do
  match (← asArr j) with
  | [r, c] => return ((← asNat r), (← asList asStr c))
  | _ => throw "early pair"

/-- Build a generator from its JSON description; `none` = the Python constructor raised ValueError. -/
def decodeGen (j : Json) : R (Option Gen) := do
  let ty ← strF j "type"
  let startRow ← optF asChars j "start_row"
  match ty with
  | "pn" =>
    let stage ← natF j "stage"
    let method ← charsF j "method"
    let bob ← optF asCallDef j "bob"
    let single ← optF asCallDef j "single"
    let si := (optF asInt j "start_index" |>.toOption |>.join).getD 0
    return mkPN stage method bob single si startRow
  | "method_xml" =>
    -- `MethodPlaceNotationGenerator._parse_xml`: "&{symblock[0]},&{symblock[1]}" or the block text
    let stage ← natF j "stage"
    let sym ← optF (asList asChars) j "sym"
    let block ← optF asChars j "block"
    let pnText : List Char := match sym, block with
      | some (a :: b :: _), _ => '&' :: a ++ ",&".toList ++ b
      | _, some b => b
      | _, _ => []
    let bob ← optF asCallDef j "bob"
    let single ← optF asCallDef j "single"
    let si := (optF asInt j "start_index" |>.toOption |>.join).getD 0
    return mkPN stage pnText bob single si startRow
  | "grandsire" => return mkGrandsire (← natF j "stage") startRow
  | "stedman" => return mkStedman (← natF j "stage") startRow
  | "plainhunt" => return mkPlainHunt (← natF j "stage") startRow
  | "dixon" => return mkDixon (← natF j "stage") startRow
  | "placeholder" => return some mkPlaceholder
  | "comp" =>
    let stage ← natF j "stage"
    let payload ← asList (fun p => do
      match (← asArr p) with
      | r :: c :: _ => return ((← asChars r), (← asChars c))
      | _ => throw "payload row") (← fld j "rows")
    match mkComp stage payload with
    | .ok g => return some g
    | .error .indexError => throw "crash:IndexError"
    | .error .valueError => return none
  | _ => throw s!"unknown gen type {ty}"

def jRow (r : Row) : Json := jNats r
def jRows (rs : List Row) : Json := jArr (rs.map jRow)

def handlePermute (j : Json) : R Json := do
  let stage ← natF j "stage"
  let row ← asNats (← fld j "row")
  let places ← asNats (← fld j "places")
  return jObj [("row", jRow (permute stage row places)),
    ("spec", jRow (Spec.apply stage row places)),
    ("consistent", Json.bool (consistentB stage places (firstPlace places)))]

def jPlacesList (l : List Places) : Json := jArr (l.map jNats)

/-- The notation of the round-trip theorem (`C02.notation_round_trip`): written out and denoted by the
very definitions the theorem is about. -/
def handleRoundTrip (j : Json) : R Json := do
  let blocks ← asList (fun b => do
    let pre ← strF b "pre"
    let toks ← asList (fun t => do
      match (← asArr t) with
      | [k, x, y] =>
        if (← asStr k) == "p" then return RoundTrip.Tok.pl (← asNats x)
        else return RoundTrip.Tok.cross ((← asStr k).toList.headD 'x') (← asNat x) (← asNat y)
      | _ => throw "token") (← fld b "toks")
    match toks with
    | t :: rest => return ({ pre := pre.toList.head?, first := t, rest := rest } : RoundTrip.Block)
    | [] => throw "empty block") (← fld j "blocks")
  return jObj [("text", Json.str (String.ofList (RoundTrip.textOf blocks))),
               ("denote", jPlacesList (RoundTrip.denoteAll blocks))]

def handleConvert (j : Json) : R Json := do
  let s ← charsF j "s"
  let conv := match convertPN s with
    | some l => jObj [("ok", jPlacesList l)]
    | none => jObj [("err", Json.str "ValueError")]
  return jObj [("convert", conv), ("valid", Json.bool (validPN upperAscii s))]

def opOfChar : Char → GenOp
  | 'b' => .bob
  | 's' => .single
  | 'r' => .reset
  | 'H' => .next true
  | _ => .next false

def jEv : GenEv → Json
  | .row r calls => jObj [("row", jRow r), ("calls", jStrs calls)]
  | .crash e => Json.str e

def handleGen (j : Json) : R Json := do
  let g? ← match decodeGen (← fld j "gen") with
    | .ok g => pure g
    | .error e => if e.startsWith "crash:" then return jObj [("err", Json.str (e.drop 6).toString)] else throw e
  match g? with
  | none => return jObj [("err", Json.str "ValueError")]
  | some g =>
    let ops ← charsF j "ops"
    let (g', evs) := g.runOps (ops.map opOfChar)
    let outs := evs.map jEv
    return jObj [("start_row", jRow g.startRow), ("start_hand", Json.bool g.startHand),
                 ("stage", jNat g.stage), ("outs", jArr outs),
                 ("final", jObj [("bob", Json.bool g'.hasBob), ("single", Json.bool g'.hasSingle),
                                 ("index", jNat g'.index)])]

end Drv
