/- `tower` (view after each message) and `page` (socket-server address extraction) request kinds. -/
import DriverLib.WorldDrv
import Wheatley.Model.Page
import Wheatley.Model.Server
open Lean Wheatley

namespace Drv

def jTower (t : Tower) (names : List (Option String)) : Json :=
  let n := t.size
  jObj [("size", jNat n),
        ("strokes", jArr (t.bellState.map Json.bool)),
        ("held", jArr ((List.range 16).map (fun i =>
          match alGet t.assigned (i + 1) with | some u => jNat u | none => Json.null))),
        ("mine", jArr (names.map (fun nm =>
          jArr ((List.range 16).map (fun i => Json.bool (t.isAssignedTo (i + 1) nm))))))]

def handleTower (j : Json) : R Json := do
  let msgs ← asList decodeMsg (← fld j "msgs")
  let names ← asList (asOpt asStr) (← fld j "names")
  let step := fun (acc : Tower × List Json) (m : Msg) =>
    let t' := acc.1.apply m
    (t', jTower t' names :: acc.2)
  let (_, snaps) := msgs.foldl step (Tower.empty, [])
  return jObj [("views", jArr snaps.reverse)]

def handlePage (j : Json) : R Json := do
  let html ← charsF j "html"
  let url ← charsF j "url"
  return jObj [("fixed", Json.str (String.ofList (Page.fixUrl url))),
               ("extract", match Page.extractUrl html with
                  | some u => Json.str (String.ofList u)
                  | none => Json.null)]

def jCells (c : Server.Cells) : Json :=
  jArr [jNat c.gen, match c.next with | some g => jNat g | none => Json.null, jNat c.size, Json.bool c.ringing]

/-- Sequential outcomes of a racing pair of handlers on the critical-section model. -/
def handleCs (j : Json) : R Json := do
  let pair ← strF j "pair"
  let c0 : Server.Cells := { gen := ← natF j "cur", next := ← optF asNat j "queued", size := ← natF j "size",
                             ringing := false }
  let g ← natF j "new"
  match pair with
  | "rowgen_size" =>
    let n ← natF j "new_size"
    return jObj [("sequential", jArr [jCells (Server.sizeChange n (Server.csRowGen g c0)),
                                      jCells (Server.csRowGen g (Server.sizeChange n c0))])]
  | _ =>
    return jObj [("sequential", jArr [jCells (Server.csLookTo (Server.csRowGen g c0)),
                                      jCells (Server.csRowGen g (Server.csLookTo c0))])]

end Drv
