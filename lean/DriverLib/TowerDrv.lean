/- `tower` (view after each message) and `page` (socket-server address extraction) request kinds. -/
import DriverLib.WorldDrv
import Wheatley.Model.Page
open Lean Wheatley

namespace Drv

def jTower (t : Tower) (names : List (Option String)) : Json :=
  let n := t.size
  jObj [("size", jNat n),
        ("strokes", jArr (t.bellState.map Json.bool)),
        ("held", jArr ((List.range 16).map (fun i =>
          match alGet t.assigned (i + 1) with | some u => jNat u | none => Json.null))),
        ("mine", jArr (names.map (fun nm =>
          jArr ((List.range 16).map (fun i => Json.bool (t.isAssignedTo (i + 1) nm))))))]

def handleTower (j : Json) : R Json := do
  let msgs ← asList decodeMsg (← fld j "msgs")
  let names ← asList (asOpt asStr) (← fld j "names")
  let step := fun (acc : Tower × List Json) (m : Msg) =>
    let t' := acc.1.apply m
    (t', jTower t' names :: acc.2)
  let (_, snaps) := msgs.foldl step (Tower.empty, [])
  return jObj [("views", jArr snaps.reverse)]

def handlePage (j : Json) : R Json := do
  let html ← charsF j "html"
  let url ← charsF j "url"
  return jObj [("fixed", Json.str (String.ofList (Page.fixUrl url))),
               ("extract", match Page.extractUrl html with
                  | some u => Json.str (String.ofList u)
                  | none => Json.null)]

end Drv
