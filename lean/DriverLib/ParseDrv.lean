/- The `parse` request kind: the command-line value parsers. -/
import DriverLib.Json
import Wheatley.Model.Parse
import Wheatley.Generated.CharTables
open Lean Wheatley Wheatley.Parse

namespace Drv

def dvTable (ch : Char) : Option Nat :=
  let cp := ch.toNat
  match Generated.decimalZeros.find? (fun z => z ≤ cp && cp < z + 10) with
  | some z => some (cp - z)
  | none => none

def realChars : Chars := { dv := dvTable, sp := fun ch => Generated.spaceChars.contains ch.toNat }

def jPRes {α} (f : α → Json) : PRes α → Json
  | .ok v => jObj [("ok", f v)]
  | .own e => jObj [("own", Json.str e)]
  | .crash e => jObj [("crash", Json.str e)]

def jChars (l : List Char) : Json := Json.str (String.ofList l)

def handleParse (j : Json) : R Json := do
  let which ← strF j "which"
  let s ← charsF j "s"
  match which with
  | "peal_speed" => return jPRes jInt (pealSpeed realChars s)
  | "call" => return jPRes (fun d => jArr (d.map (fun (i, p) => jArr [jInt i, jChars p]))) (callDef realChars s)
  | "start_row" => return jPRes jNat (startRow s)
  | "place_notation" =>
    let r := placeNotation realChars s
    -- "can be rung": does the generator's constructor succeed on what was accepted?
    let rung : Json := match r with
      | .ok (st, pn) => Json.bool (mkPN st pn none none 0 none).isSome
      | _ => Json.null
    return jObj [("res", jPRes (fun (st, pn) => jArr [jNat st, jChars pn]) r), ("rung", rung)]
  | "comp_arg" =>
    let parsed : Option (List Char × List Char) ←
      match fldOpt j "urlparse" with
      | some p => do pure (some ((← charsF p "path"), (← charsF p "query")))
      | none => pure none
    let r := compArg realChars parsed
    return jObj [("url", jChars (compUrl s)),
                 ("res", jPRes (fun (id, key, sub) =>
                    jArr [jInt id, match key with | some k => jChars k | none => Json.null,
                          match sub with | some m => jInt m | none => Json.null]) r)]
  | w => throw s!"unknown parser {w}"

end Drv
