/- Line-protocol driver: one JSON request per input line, one JSON reply per output line. -/
import DriverLib.Gens
import DriverLib.WorldDrv
import DriverLib.ParseDrv
import DriverLib.TowerDrv
import DriverLib.CliDrv
open Lean Drv

partial def dispatch (j : Json) : R Json := do
  match (← strF j "k") with
  | "multi" =>
    let rs ← (← arrF j "reqs").mapM dispatch
    return jObj [("replies", jArr rs)]
  | "permute" => handlePermute j
  | "convert" => handleConvert j
  | "roundtrip" => handleRoundTrip j
  | "gen" => handleGen j
  | "world" => handleWorld j
  | "solo" => handleSolo j
  | "generated" => handleGenerated j
  | "parse" => handleParse j
  | "cli" => handleCli j
  | "server_cli" => handleServerCli j
  | "tower" => handleTower j
  | "page" => handlePage j
  | "cs" => handleCs j
  | k => throw s!"unknown kind {k}"

partial def loop (h : IO.FS.Stream) (out : IO.FS.Stream) : IO Unit := do
  let line ← h.getLine
  if line.isEmpty then return ()
  let reply :=
    match Json.parse line with
    | .error e => jObj [("driver_error", Json.str e)]
    | .ok j =>
      match dispatch j with
      | .ok r => r
      | .error e => jObj [("driver_error", Json.str e)]
  out.putStrLn reply.compress
  loop h out

def main : IO Unit := do
  loop (← IO.getStdin) (← IO.getStdout)
