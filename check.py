#!/venv/bin/python
"""check.py <property id> [--tier quick|thorough] [--replay file]

Exit 0: the property held on everything explored.  Exit 1 + a line
`VIOLATION property=<id> replay=<path>`: violated (or no longer shown to hold).  Exit 2: internal
error / time-out (never a verdict)."""
import argparse
import importlib
import os
import sys
import traceback

sys.path.insert(0, os.path.dirname(os.path.abspath(__file__)))


def main():
    ap = argparse.ArgumentParser()
    ap.add_argument("prop")
    ap.add_argument("--tier", default=os.environ.get("VERIF_TIER", "quick"), choices=["quick", "thorough"])
    ap.add_argument("--replay")
    a = ap.parse_args()
    seed = int(os.environ.get("VERIF_SEED", "0") or 0)
    try:
        from harness import framework
        mod = importlib.import_module("harness.props." + a.prop.lower())
        prop = mod.PROP
        return framework.run_check(prop, a.tier, seed, a.replay)
    except SystemExit:
        raise
    except BaseException:  # noqa
        traceback.print_exc()
        return 2


if __name__ == "__main__":
    sys.exit(main())
